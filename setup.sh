#!/bin/sh
# Builds the framework offline from files on disk.
set -e
cd "$(dirname "$0")"
export GOFLAGS=-mod=mod GOPROXY=off GOSUMDB=off GOTOOLCHAIN=local GOWORK=off
GO=/opt/veriftools/go1.26.8/bin/go
mkdir -p bin evidence replays
$GO build -o bin/simbuild ./cmd/simbuild
$GO build -o bin/verifcheck ./cmd/verifcheck
echo "setup ok"
