#!/bin/bash
# verify_seeds.sh <src-dir> <out-dir> [ids...]
# For every seeded change <src-dir>/out-Cxx/{A,B} (patch.diff, demo_test.go with DEST:/RUN: header,
# notes.md): in a scratch worktree of /repo at HEAD
#   1. the demonstration passes on the unchanged tree,
#   2. the demonstration fails with the patch,
#   3. the repository's own test suite (root module) has the same pass set with the patch.
# Results go to <out-dir>/<Cxx>-<A|B>/{patch.diff,demo_test.go,notes.md,verify.json}.
# The worktree lives under /tmp and is removed at the end.
set -u
SRC=$1; OUT=$2; shift 2
WT=/tmp/seedverify-wt
export GOFLAGS=-mod=mod
git -C /repo worktree remove --force $WT 2>/dev/null
git -C /repo worktree add --detach $WT HEAD >/dev/null 2>&1 || { echo "worktree failed"; exit 2; }
trap 'git -C /repo worktree remove --force $WT; rm -rf /tmp/seedverify-*.json' EXIT
suite() { (cd $WT && go test -mod=mod -json -vet=off -count=1 -timeout 25m ./... 2>/dev/null) | python3 -c '
import sys,json
ok=set()
for l in sys.stdin:
    try: e=json.loads(l)
    except: continue
    if e.get("Action")=="pass" and e.get("Test"): ok.add(e["Package"]+"::"+e["Test"])
print(json.dumps(sorted(ok)))' ; }
suite > /tmp/seedverify-clean.json
NCLEAN=$(python3 -c 'import json;print(len(json.load(open("/tmp/seedverify-clean.json"))))')
echo "clean tree: $NCLEAN passing tests (root module)"
ids=("$@")
for d in $SRC/out-C*/[A-D]; do
  p=$(basename $(dirname $d)); p=${p#out-}; v=$(basename $d); id=$p-$v
  if [ ${#ids[@]} -gt 0 ] && [[ ! " ${ids[*]} " =~ " $id " ]]; then continue; fi
  dest=$(grep -m1 '^// DEST:' $d/demo_test.go | sed 's|// DEST: *||')
  run=$(grep -m1 '^// RUN:' $d/demo_test.go | sed 's|// RUN: *||')
  (cd $WT && git checkout -q -- . && git clean -fdq)
  mkdir -p $(dirname $WT/$dest); cp $d/demo_test.go $WT/$dest
  (cd $WT && eval "$run") > /tmp/seedverify-demo-clean.txt 2>&1; c1=$?
  (cd $WT && git apply $d/patch.diff) || { echo "$id: patch does not apply"; continue; }
  (cd $WT && eval "$run") > /tmp/seedverify-demo-patched.txt 2>&1; c2=$?
  rm -f $WT/$dest; (cd $WT && git clean -fdq)
  suite > /tmp/seedverify-patched.json
  same=$(python3 -c '
import json
a=set(json.load(open("/tmp/seedverify-clean.json")));b=set(json.load(open("/tmp/seedverify-patched.json")))
print(json.dumps({"clean_passing":len(a),"patched_passing":len(b),"lost":sorted(a-b)[:20],"gained":sorted(b-a)[:20]}))')
  mkdir -p $OUT/$id
  cp $d/patch.diff $d/demo_test.go $d/notes.md $OUT/$id/
  python3 - "$id" "$p" "$dest" "$run" "$c1" "$c2" "$same" > $OUT/$id/verify.json <<'EOF'
import sys,json
id,p,dest,run,c1,c2,same=sys.argv[1:]
tail=open("/tmp/seedverify-demo-patched.txt").read()[-1500:]
print(json.dumps({"id":id,"property":p,"demo_dest":dest,"demo_run":run,"demo_exit_on_unchanged_tree":int(c1),"demo_exit_with_patch":int(c2),
 "existing_suite":json.loads(same),"demo_output_with_patch_tail":tail},indent=1))
EOF
  echo "$id: demo clean=$c1 patched=$c2 suite=$same" | cut -c1-300
done
