#!/bin/bash
# usage: tools/seedtest.sh <patch.diff> <scale> <prop>...   — applies a seeded change to /repo, runs the
# quick checks of the given properties, restores /repo.  Prints one line per property.
patch=$1; scale=$2; shift 2
cd /repo || exit 2
if ! git apply --check "$patch" 2>/dev/null; then
  if ! git apply --3way "$patch" >/dev/null 2>&1; then echo "PATCH-DOES-NOT-APPLY $patch"; git checkout -- . ; exit 3; fi
  git reset -q
else
  git apply "$patch"
fi
cd /verif
for p in "$@"; do
  out=$(./bin/verifcheck -property $p -tier quick -scale $scale 2>&1)
  code=$?
  echo "$p exit=$code $(echo "$out" | grep -E '^violation' | head -2 | cut -c1-260)"
done
cd /repo && git checkout -- . && git status --short | grep -v go.work.sum | head -3
