#!/usr/bin/env python3
# Builds /verif/seeded/<id>/meta.json from notes.md (written by the sub-agent that made the change),
# verify.json (tools/verify_seeds.sh) and detect.json (tools/detect_seeds.sh).
import json,glob,os,re
for d in sorted(glob.glob('/verif/seeded/C*-[A-D]')):
    id=os.path.basename(d)
    notes=open(d+'/notes.md').read()
    title=notes.splitlines()[0].strip('# ').strip()
    def section(name):
        m=re.search(r'^##\s*'+name+r'.*?\n(.*?)(?=^##\s|\Z)',notes,re.S|re.M|re.I)
        return m.group(1).strip() if m else ''
    def first(*names):
        for n in names:
            t=section(n)
            if t: return t
        return ''
    ver=json.load(open(d+'/verify.json')) if os.path.exists(d+'/verify.json') else {}
    det=json.load(open(d+'/detect.json')) if os.path.exists(d+'/detect.json') else {}
    extra=json.load(open(d+'/override.json')) if os.path.exists(d+'/override.json') else {}
    meta={
     "id":id,"property_it_breaks":id.split('-')[0],"title":title,
     "what_it_breaks":(first('What it breaks','What breaks','What it violates','How it breaks','Why it breaks','The defect','Effect','Breaks') or notes[len(title)+2:2000]).strip()[:3000],
     "what_it_needs_to_manifest":first('What is needed','What it needs','What it takes','Needed to manifest','To manifest','Trigger','When it manifests','Manifest')[:3000],
     "why_existing_tests_pass":first('Why the existing tests','Why existing tests','Why tests','Existing tests')[:2000],
     "files":["patch.diff","demo_test.go (header: DEST = where it goes in the tree, RUN = command)","notes.md"],
     "what_was_run":{
       "verification (tools/verify_seeds.sh, scratch worktree of /repo at HEAD)":{
          "demo on unchanged tree (exit)":ver.get("demo_exit_on_unchanged_tree"),
          "demo with patch (exit)":ver.get("demo_exit_with_patch"),
          "repository test suite, root module: passing tests unchanged tree / with patch":[ver.get("existing_suite",{}).get("clean_passing"),ver.get("existing_suite",{}).get("patched_passing")],
          "tests lost with patch":ver.get("existing_suite",{}).get("lost"),
          "demo command":ver.get("demo_run")},
       "detection (tools/detect_seeds.sh)":det},
    }
    meta.update(extra)
    json.dump(meta,open(d+'/meta.json','w'),indent=1)
print("ok")
