#!/usr/bin/env python3
# Generates MANIFEST.json from the table below (kept in sync with cmd/verifcheck/tables.go).
import json
claimed = {
 "C01": ("kctl", "pairwise may-share oracle on the allocator's recorded holdings after every handler call and on Service statuses at every quiescence, over seeded histories/schedules/faults of the real controller"),
 "C02": ("kctl", "pool-membership / admission / family / request / pool-order oracle (own address parser) at every assignment event and at quiescence"),
 "C03": ("kctl", "frame condition on every handler call (other services keep still-admissible addresses), write-time stability of the processed service's recorded addresses, and zero writes on a second forced re-sync"),
 "C06": ("kctl", "crash-point enumeration (for each sampled fault-free history, one run per crash opportunity it passes: every scheduler step boundary, before and after every status write) plus seeded multi-crash and status-write-fault sequences, with steal-at-write, recorded-address-kept, memory=status and bounded-quiescence oracles"),
 "C07": ("kctl", "brute-force admissibility oracle for every pending Service at every quiescence"),
 "C11": ("kctl", "counter oracle (own usable/usage count, saturating) and bookkeeping == fresh rebuild after every handler call"),
 "C04": ("kspk", "at every quiescence of a simulated cluster of real speakers: per address exactly one announcer iff an eligible node exists, announcer eligible, sharers agree (eligibility from raw API objects, election not mirrored)"),
 "C05": ("kspk", "at every quiescence: per (node, peer) the recorded route set with attributes equals the set computed from raw API objects; sessions exist exactly for selected peers; per-service peer report exact"),
 "C09": ("kspk", "at every quiescence: what each speaker announces (L2 decisions, announcer content, BGP routes) equals a fresh speaker booted in-simulation on the final state, and the specification"),
 "C10": ("kspk", "at every quiescence: node announces a service over BGP iff eligible per raw API objects (advertisement selection, node condition/label, endpoint readiness conjunction, traffic policy)"),
 "C12": ("kspk", "between consecutive quiescences: an address never moves between two nodes eligible before and after the perturbation (real eligibility-changing mechanisms: crashes, node flags, selectors, endpoints)"),
 "C13": ("gl2", "real goroutines of the layer-2 announcer, ARP responders and gratuitous loop under the seeded scheduler; the recorded history of announce/withdraw/request operations is checked for linearizability (porcupine) against 'answers iff some announced service holds the address with an advertisement covering the interface'; reference counts; no gratuitous frame after the last withdrawal; frames that must be ignored"),
 "C14": ("gfrr", "every configuration text the simulated FRR actually receives (after debouncing, failed reloads, torn writes) is interpreted with FRR semantics (frrinterp) and compared with the requested state; one text per requested state across creation and map orders"),
 "C15": ("gfrrk8s", "every FRRConfiguration the session manager computes is interpreted (frrk8sinterp) and compared with the requested state (the same reference denotation as C14); structural clauses; every resource written to the simulated API server is one of the computed ones"),
 "C16": ("gnative", "every byte the native session writes is decoded by an independent RFC 4271 decoder and compared with the requested advertisement; the OPEN reader is driven as a stream consumer with generated/mutated OPENs under fragmentation"),
 "C17": ("gnative", "real session goroutines against a scripted peer over simulated TCP with connection faults; peer table of the current connection equals the last requested set within 5 simulated minutes after faults stop; refused ASN; silence after Close"),
 "C19": ("gfrr", "history of submissions / reload attempts / reloader results under seeded schedules and failure patterns: latest-wins, no stale apply, retry, coalescing, no reload for identical resubmission, bounded convergence after faults stop; plus the frr-k8s debouncer/reconciler delivery"),
 "C18": ("kspk", "fork check at every quiescence: fresh ConfigReconcilers over the same snapshot under drawn List permutations and map orders agree (DeepEqual) or all reject, recomputation looks unchanged; unrelated events never reach the handler"),
 "C20": ("gconc", "real handler goroutines of the controller and speaker processes run concurrently against the real k8s.Listener / allocator / announcers under the seeded scheduler in a binary built with the Go race detector (scheduler hand-offs invisible to it, scheduler-owned locks report acquire/release: a missing or misplaced lock is a deterministic replayable data race); no deadlock; final state and every concurrent status query equal the serial replay of the same handler calls in lock-acquisition order"),
}
na = {
 "C08": "pure function of its input (config.For/toConfig): no schedule, clock, fault or interleaving for a simulator to vary; belongs to property-based testing/SMT (DESIGN.md §5)",
}
pending = []
checks=[]
for pid,(eng,txt) in sorted(claimed.items()):
    checks.append({
      "property_id": pid,
      "quick_cmd": f"bin/verifcheck -property {pid} -tier quick",
      "thorough_cmd": f"bin/verifcheck -property {pid} -tier thorough",
      "evidence_file": f"/verif/evidence/{pid}.json",
      "replay_cmd_template": "bin/verifcheck -replay {path}",
      "engine": eng,
      "level_claimed": {"category": ("fault_enumeration" if pid=="C06" else "exploration"), "text": txt + "; a clean batch is evidence, not proof", "design_ref": "DESIGN.md §4 "+pid},
      "level_note": "trusted: the simulated API server/informer/work-queue semantics (sim/simk8s), the oracle packages (sim/spec*), the simbuild rewrite (checked by running the repository's own unit tests against the rewritten sources); real: every MetalLB package on the path",
      "technique": "deterministic simulation with fault injection: seeded schedule/fault search over the real controller code, invariants checked during each run, minimised replay file per violation",
    })
m={
 "version":1,
 "setup_cmd":"./setup.sh",
 "hooks":{"guard":"verif","enable":"go test -tags verif -overlay <generated> -modfile <scratch go.mod>: harness files, export shims and the simulation library are added by overlay; sources are rewritten at check time by bin/simbuild (map-range order, sync, go statements, call substitutions); nothing is committed to /repo","baseline_off_cmd":"for m in $(cat /w/out/gomods.txt); do MF=$(cd /repo/$m && . /w/out/goenv.sh && gomodflag); (cd /repo/$m && go test $MF -json -vet=off -count=1 -timeout 25m ./...); done","source_commits":[],"add_only":True},
 "engines":[{"name":"gnative","path":"harness/internal/bgp/native","serves_properties":["C16","C17"],"kind_free_text":"goroutine engine: real native BGP session goroutines inside a testing/synctest bubble, exactly one released at a time by a seeded scheduler at park points (scheduler-owned locks/conds, simulated TCP, rewritten selects/sends/sleeps); scripted peer with independent decoder"},
  {"name":"gfrr","path":"harness/internal/bgp/frr","serves_properties":["C14","C19"],"kind_free_text":"goroutine engine over the FRR session manager, debouncer and reload validator; simulated files, reloader and FRR (interpreter)"},
  {"name":"gfrrk8s","path":"harness/internal/k8s/controllers","serves_properties":["C15","C19"],"kind_free_text":"goroutine engine over the frr-k8s session manager and FRRK8sReconciler (debouncer + Reconcile) with a simulated API server"},
  {"name":"gl2","path":"harness/internal/layer2","serves_properties":["C13"],"kind_free_text":"goroutine engine over layer2.Announce, arpResponder goroutines and the gratuitous loop with simulated raw sockets; porcupine"},
  {"name":"kspk","path":"harness/speaker","serves_properties":["C04","C05","C09","C10","C12","C18"],"kind_free_text":"single-goroutine discrete-event simulation of N speaker processes (real speaker controller, layer2/bgp controllers, reconcilers) over one simulated API server with per-speaker informer caches and queues, simulated memberlist, recording BGP session manager; speaker crash/restart, false suspicion, lag, reordering"},{"name":"gconc","path":"harness/controller","serves_properties":["C20"],"kind_free_text":"goroutine engine with -race over the controller process's three worker goroutines (service, pool/config, pool-status) against the real Listener lock and allocator"},{"name":"gconcspk","path":"harness/speaker","serves_properties":["C20"],"kind_free_text":"goroutine engine with -race over the speaker process's handler goroutines (service, config, node, memberlist-triggered re-sync, layer-2 / BGP status queries)"},{"name":"kctl","path":"harness/controller","serves_properties":["C01","C02","C03","C06","C07","C11"],"kind_free_text":"single-goroutine discrete-event simulation of the controller process: real controller/allocator/reconcilers over a simulated API server, informer cache and work queues; nested scheduling at handler granularity; crash/restart and API write faults"}],
 "checks":checks,
 "not_applicable":[{"property_id":k,"reason":v} for k,v in na.items()]+[{"property_id":p,"reason":"check not built yet in this session (engine under construction, see DESIGN.md §8); not claimed"} for p in pending],
 "notes":"Genuine defects repaired in /repo are 'fix:' commits listed in known_findings.json under fixed; recorded ones under findings."
}
json.dump(m,open("MANIFEST.json","w"),indent=1)
