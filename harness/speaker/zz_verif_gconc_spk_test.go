//go:build verif

package main

// G-conc, speaker side (C20): the service, configuration and node workers of the speaker process
// plus the two status workers (per-service BGP peers, layer-2 announcement status) as tasks of
// the goroutine engine against the real k8s.Listener methods, built with -race.  See the
// controller-side file for the method.

import (
	"fmt"
	"os"
	"runtime"
	"sort"
	"strings"
	"sync"
	"testing"
	"testing/synctest"
	"time"

	"github.com/go-kit/log"
	metallbv1beta1 "go.universe.tf/metallb/api/v1beta1"
	metallbv1beta2 "go.universe.tf/metallb/api/v1beta2"
	"go.universe.tf/metallb/internal/bgp"
	"go.universe.tf/metallb/internal/config"
	"go.universe.tf/metallb/internal/k8s"
	"go.universe.tf/metallb/internal/layer2"
	"go.universe.tf/metallb/internal/verifsim/runner"
	"go.universe.tf/metallb/internal/verifsim/simrt"
	"go.universe.tf/metallb/internal/verifsim/simsync"
	v1 "k8s.io/api/core/v1"
	discovery "k8s.io/api/discovery/v1"
	metav1 "k8s.io/apimachinery/pkg/apis/meta/v1"
	"k8s.io/apimachinery/pkg/types"
)

var curTconcSpk *testing.T

type spkOp struct {
	kind string // svc, del, cfg, node
	name string
	svc  *v1.Service
	eps  []discovery.EndpointSlice
	cfg  *config.Config
	node *v1.Node
}

type spkConcInst struct {
	ctrl     *controller
	listener *k8s.Listener
	sm       *recManager
}

func newSpkConcInst() *spkConcInst {
	in := &spkConcInst{sm: &recManager{}}
	sm := in.sm
	newBGP = func(cfg controllerConfig) bgp.SessionManager { return sm }
	layer2.VerifInterfaces = []string{"eth0", "eth1"}
	w := &sworld{k: sknobs{mlDisabled: true}}
	c, err := newController(controllerConfig{MyNode: "n1", Namespace: metallbNS, FRRK8sNamespace: metallbNS, Logger: log.NewNopLogger(),
		SList: simList{w, &spkInc{view: map[string]bool{"n1": true}}}, bgpType: bgpFrr,
		Layer2StatusChange: func(types.NamespacedName) {}, BGPAdsChangedCallback: func(string) {}})
	if err != nil {
		panic(err)
	}
	c.client = nopSvc{}
	in.ctrl = c
	in.listener = &k8s.Listener{ServiceChanged: c.SetBalancer, ConfigChanged: c.SetConfig, NodeChanged: c.SetNode}
	return in
}

//go:norace
func (in *spkConcInst) apply(op spkOp) {
	l := log.NewNopLogger()
	switch op.kind {
	case "svc":
		in.listener.ServiceHandler(l, op.name, op.svc.DeepCopy(), op.eps)
	case "del":
		in.listener.ServiceHandler(l, op.name, nil, nil)
	case "cfg":
		in.listener.ConfigHandler(l, op.cfg)
	case "node":
		in.listener.NodeHandler(l, op.node.DeepCopy())
	}
	in.ctrl.protocolHandlers[config.Layer2].(*layer2Controller).announcer.VerifDrainSpam()
}

func spkConcConfig(variant int) *config.Config {
	res := config.ClusterResources{
		Pools: []metallbv1beta1.IPAddressPool{{ObjectMeta: metav1.ObjectMeta{Name: "p1", Namespace: metallbNS}, Spec: metallbv1beta1.IPAddressPoolSpec{Addresses: []string{"10.1.0.0/28"}}}},
		Nodes: []v1.Node{{ObjectMeta: metav1.ObjectMeta{Name: "n1", Labels: map[string]string{"zone": "a"}}}},
	}
	peer := func(n, addr string) metallbv1beta2.BGPPeer {
		return metallbv1beta2.BGPPeer{ObjectMeta: metav1.ObjectMeta{Name: n, Namespace: metallbNS}, Spec: metallbv1beta2.BGPPeerSpec{MyASN: 64512, ASN: 64600, Address: addr}}
	}
	l2 := func(ifs ...string) metallbv1beta1.L2Advertisement {
		return metallbv1beta1.L2Advertisement{ObjectMeta: metav1.ObjectMeta{Name: "l1", Namespace: metallbNS}, Spec: metallbv1beta1.L2AdvertisementSpec{Interfaces: ifs}}
	}
	adv := func(peers ...string) metallbv1beta1.BGPAdvertisement {
		return metallbv1beta1.BGPAdvertisement{ObjectMeta: metav1.ObjectMeta{Name: "b1", Namespace: metallbNS}, Spec: metallbv1beta1.BGPAdvertisementSpec{Peers: peers}}
	}
	switch variant {
	case 0:
		res.Peers = []metallbv1beta2.BGPPeer{peer("peer1", "10.9.0.1"), peer("peer2", "10.9.0.2")}
		res.BGPAdvs = []metallbv1beta1.BGPAdvertisement{adv("peer1")}
		res.L2Advs = []metallbv1beta1.L2Advertisement{l2()}
	case 1:
		res.Peers = []metallbv1beta2.BGPPeer{peer("peer1", "10.9.0.1"), peer("peer2", "10.9.0.2")}
		res.BGPAdvs = []metallbv1beta1.BGPAdvertisement{adv("peer2")}
		res.L2Advs = []metallbv1beta1.L2Advertisement{l2("eth0")}
	case 2:
		res.Peers = []metallbv1beta2.BGPPeer{peer("peer1", "10.9.0.1")}
		res.BGPAdvs = []metallbv1beta1.BGPAdvertisement{adv()}
		res.L2Advs = []metallbv1beta1.L2Advertisement{l2("eth1", "eth0")}
	case 3:
		res.Peers = []metallbv1beta2.BGPPeer{peer("peer1", "10.9.0.1"), peer("peer2", "10.9.0.2")}
		res.BGPAdvs = []metallbv1beta1.BGPAdvertisement{adv("peer1", "peer2")}
	}
	cfg, err := config.For(res, config.DontValidate)
	if err != nil {
		panic(err)
	}
	return cfg
}

type spkConcWorld struct {
	order   []string
	started int
	lname   string
}

//go:norace
func (w *spkConcWorld) lockOrder(task, obj string) {
	if w.lname == "" || obj != w.lname {
		return
	}
	w.order = append(w.order, task)
	w.started++
}

//go:norace
func spkConcWorker(inst *spkConcInst, ops []spkOp, done *int) {
	for _, op := range ops {
		simrt.Yield("next event")
		inst.apply(op)
	}
	*done = *done + 1
}

// the BGP status reconciler: asks for the peers of a service and then uses the answer
func spkConcBGPStatus(inst *spkConcInst, keys []string, done *int, sink *int) {
	for _, k := range keys {
		simrt.Yield("next query")
		peers := inst.ctrl.bgpPeersFetcher(k)
		simrt.Yield("reconcile")
		n := peers.Len()
		for _, p := range peers.UnsortedList() {
			n += len(p)
		}
		*sink += n
	}
	spkConcDone(done)
}

// the layer-2 status reconciler
func spkConcL2Status(inst *spkConcInst, keys []string, done *int, sink *int) {
	for _, k := range keys {
		simrt.Yield("next query")
		parts := strings.Split(k, "/")
		advs := inst.ctrl.layer2StatusFetchFunc(types.NamespacedName{Namespace: parts[0], Name: parts[1]})
		simrt.Yield("reconcile")
		n := 0
		for i := range advs {
			if advs[i].IsAllInterfaces() {
				n++
			}
			n += advs[i].GetInterfaces().Len()
		}
		*sink += n
	}
	spkConcDone(done)
}

//go:norace
func spkConcDone(done *int) { *done = *done + 1 }

func (in *spkConcInst) observation() string {
	var out []string
	for p, m := range in.ctrl.announced {
		for s, v := range m {
			if v {
				out = append(out, fmt.Sprintf("announced %s %s", p, s))
			}
		}
	}
	a := in.ctrl.protocolHandlers[config.Layer2].(*layer2Controller).announcer
	for s, l := range a.VerifAnnounced() {
		out = append(out, fmt.Sprintf("l2 %s %v", s, l))
	}
	for _, s := range in.sm.sessions {
		if s.closed {
			continue
		}
		var rs []string
		for _, ad := range s.ads {
			rs = append(rs, ad.Prefix.String())
		}
		sort.Strings(rs)
		out = append(out, fmt.Sprintf("bgp %s %v", s.params.SessionName, rs))
	}
	sort.Strings(out)
	return strings.Join(out, "\n")
}

func gconcSpkRun(env *runner.Env) (res *runner.Result) {
	stats := map[string]int64{}
	res = &runner.Result{Stats: stats}
	ch := env.Ch
	pick := func(n int, l string) int { return ch.Intn(n, l) }
	defer func() {
		simrt.Active, simrt.SelectOrder, simrt.MapOrder = nil, nil, nil
		simsync.LockOrder = nil
	}()
	racesBefore := simrt.RaceErrors()
	bubble := func(t *testing.T) {
		simrt.SetEpoch()
		s := simrt.NewSched(func(n int, l string) int { return ch.Intn(n, l) })
		s.Verbose = env.Verbose
		simrt.Active = s
		simrt.MapOrder = nil
		w := &spkConcWorld{}
		inst := newSpkConcInst()
		names := []string{"default/s1", "default/s2", "default/s3"}
		ready := true
		node := "n1"
		mkSvc := func(name string) spkOp {
			parts := strings.Split(name, "/")
			svc := &v1.Service{ObjectMeta: metav1.ObjectMeta{Namespace: parts[0], Name: parts[1]}}
			svc.Spec.Type = v1.ServiceTypeLoadBalancer
			svc.Spec.ExternalTrafficPolicy = v1.ServiceExternalTrafficPolicyTypeCluster
			switch pick(5, "status") {
			case 0:
			case 1:
				svc.Status.LoadBalancer.Ingress = []v1.LoadBalancerIngress{{IP: "10.1.0.1"}}
			case 2:
				svc.Status.LoadBalancer.Ingress = []v1.LoadBalancerIngress{{IP: "10.1.0.2"}}
			default:
				svc.Status.LoadBalancer.Ingress = []v1.LoadBalancerIngress{{IP: fmt.Sprintf("10.1.0.%d", 1+pick(3, "ip"))}}
			}
			eps := []discovery.EndpointSlice{{Endpoints: []discovery.Endpoint{{Addresses: []string{"10.244.1.1"}, NodeName: &node, Conditions: discovery.EndpointConditions{Ready: &ready}}}}}
			if pick(6, "no endpoints") == 0 {
				eps = nil
			}
			return spkOp{kind: "svc", name: name, svc: svc, eps: eps}
		}
		var svcOps, cfgOps, nodeOps []spkOp
		cfgOps = append(cfgOps, spkOp{kind: "cfg", cfg: spkConcConfig(0)})
		for i, n := 0, 1+pick(4, "cfg ops"); i < n; i++ {
			cfgOps = append(cfgOps, spkOp{kind: "cfg", cfg: spkConcConfig(pick(4, "cfg variant"))})
		}
		for i, n := 0, 3+pick(10, "svc ops"); i < n; i++ {
			name := names[pick(len(names), "svc")]
			switch pick(6, "svc op") {
			case 0:
				svcOps = append(svcOps, spkOp{kind: "del", name: name})
			case 1:
				for _, nm := range names {
					svcOps = append(svcOps, mkSvc(nm))
				}
			default:
				svcOps = append(svcOps, mkSvc(name))
			}
		}
		for i, n := 0, pick(4, "node ops"); i < n; i++ {
			nd := &v1.Node{ObjectMeta: metav1.ObjectMeta{Name: "n1", Labels: map[string]string{"zone": []string{"a", "b"}[pick(2, "zone")]}}}
			if pick(3, "unavailable") == 0 {
				nd.Status.Conditions = []v1.NodeCondition{{Type: v1.NodeNetworkUnavailable, Status: v1.ConditionTrue}}
			}
			nodeOps = append(nodeOps, spkOp{kind: "node", node: nd})
		}
		nq := 3 + pick(12, "queries")
		q1, q2 := make([]string, nq), make([]string, nq)
		for i := range q1 {
			q1[i], q2[i] = names[pick(len(names), "bgp query")], names[pick(len(names), "l2 query")]
		}
		simsync.LockOrder = w.lockOrder
		workersDone := 0
		sink1, sink2 := 0, 0 // one per status task (they are real shared memory to the race detector)
		var finished sync.WaitGroup
		finished.Add(5)
		s.GoNamed("setup", false, func() {
			inst.apply(spkOp{kind: "node", node: &v1.Node{ObjectMeta: metav1.ObjectMeta{Name: "n1", Labels: map[string]string{"zone": "a"}}}})
			inst.apply(cfgOps[0])
			w.lname = inst.listener.Mutex.VerifName()
			w.order, w.started = nil, 0
			s.GoNamed("svcworker", false, func() { spkConcWorker(inst, svcOps, &workersDone); finished.Done() })
			s.GoNamed("cfgworker", false, func() { spkConcWorker(inst, cfgOps[1:], &workersDone); finished.Done() })
			s.GoNamed("nodeworker", false, func() { spkConcWorker(inst, nodeOps, &workersDone); finished.Done() })
			s.GoNamed("bgpstatus", false, func() { spkConcBGPStatus(inst, q1, &workersDone, &sink1); finished.Done() })
			s.GoNamed("l2status", false, func() { spkConcL2Status(inst, q2, &workersDone, &sink2); finished.Done() })
		})
		reason := s.Run(func() bool { return workersDone == 5 }, 200000, time.Hour)
		violate := func(inv, msg string) {
			if res.Violation == nil && env.On("C20") {
				res.Violation = &runner.Violation{Property: "C20", Invariant: inv, Message: msg}
			}
		}
		switch {
		case strings.HasPrefix(reason, "panic"):
			if strings.Contains(reason, "zz_verif_gconc") && !strings.Contains(reason, "metallb/speaker.(*") && !strings.Contains(reason, "layer2.") {
				panic("harness trouble: " + reason)
			}
			violate("panic", "a handler or status query panicked under concurrent delivery: "+reason)
		case strings.HasPrefix(reason, "deadlock"):
			violate("deadlock", "concurrent delivery deadlocks: "+reason)
		case reason != "":
			stats["run-"+strings.ReplaceAll(reason, " ", "-")]++
		default:
			steps := s.Steps
			s.Kill()
			simrt.Active = nil
			simsync.LockOrder = nil
			res.Steps = steps
			finished.Wait()
			// serial replay in lock order
			ref := newSpkConcInst()
			ref.apply(spkOp{kind: "node", node: &v1.Node{ObjectMeta: metav1.ObjectMeta{Name: "n1", Labels: map[string]string{"zone": "a"}}}})
			ref.apply(cfgOps[0])
			next := map[string]int{}
			scripts := map[string][]spkOp{"svcworker": svcOps, "cfgworker": cfgOps[1:], "nodeworker": nodeOps}
			for _, task := range w.order {
				sc := scripts[task]
				if next[task] >= len(sc) {
					panic("harness trouble: lock order lists more handler invocations than the script of " + task)
				}
				ref.apply(sc[next[task]])
				next[task]++
			}
			if a, b := inst.observation(), ref.observation(); a != b {
				violate("state-differs-from-serial-replay", fmt.Sprintf("the speaker's announcements after concurrent delivery differ from running the same %d handler invocations one at a time in lock order (%v):\n--- concurrent\n%s\n--- serial\n%s", len(w.order), w.order, a, b))
			}
			stats["probe.serial-replay-compared"]++
		}
		if n := simrt.RaceErrors() - racesBefore; n > 0 {
			res.Violation = nil
			violate("data-race", fmt.Sprintf("the race detector reported %d data race(s) during this run (report saved next to the replay file)", n))
			if res.Violation != nil {
				res.Violation.NoShrink = true
			}
		}
		if res.Steps == 0 {
			res.Steps = s.Steps
		}
		res.SimTime = simrt.Now()
		res.SchedHash = s.Hash
		res.NonTrivial = len(w.order) > 2
		res.Log = s.Log
		stats["handler-invocations"] += int64(len(w.order))
		for i := 1; i < len(w.order); i++ {
			if w.order[i] != w.order[i-1] {
				stats["probe.listener-lock-handed-to-a-different-worker"]++
			}
		}
		for k, v := range s.Released {
			stats["released."+k] += int64(v)
		}
		stats["status-queries"] += int64(2 * nq)
		_, _ = sink1, sink2
		s.Kill()
	}
	curTconcSpk.Run("run", func(t *testing.T) {
		defer func() {
			if r := recover(); r != nil {
				if m := fmt.Sprint(r); strings.Contains(m, "deadlock") && strings.Contains(m, "bubble") {
					if res.Steps == 0 {
						buf := make([]byte, 1<<16)
						buf = buf[:runtime.Stack(buf, true)]
						panic("the bubble ended before the simulation ran: " + m + "\n" + string(buf))
					}
					return
				}
				panic(r)
			}
		}()
		synctest.Test(t, bubble)
	})
	return res
}

func TestVerifGconcSpk(t *testing.T) {
	if os.Getenv("VERIF_MODE") == "" {
		t.Skip("verification harness: driven by /verif/bin/verifcheck")
	}
	curTconcSpk = t
	if code := runner.Main("gconcspk", gconcSpkRun); code != 0 {
		t.Fatalf("runner exit %d", code)
	}
}
