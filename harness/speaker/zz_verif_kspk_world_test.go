//go:build verif

package main

// K-spk: a cluster of speakers under deterministic simulation (DESIGN.md §3.2).
// Real: speaker controller (SetBalancer/SetConfig/SetNode, handleService, deleteBalancer),
// layer2Controller, bgpController, layer2.Announce bookkeeping, ServiceReconciler (with endpoint
// slices), ConfigReconciler (+ config.For), NodeReconciler (+ its predicate), k8s.Listener.
// Simulated: API server, informer caches, work queues (simk8s); memberlist behind SpeakerList;
// BGP session manager (recording stub); the MetalLB controller's role (status addresses).

import (
	"context"
	"fmt"
	"hash/fnv"
	"net"
	"errors"
	"runtime"
	"runtime/debug"
	"sort"
	"strings"
	"time"

	"github.com/go-kit/log"
	metallbv1beta1 "go.universe.tf/metallb/api/v1beta1"
	metallbv1beta2 "go.universe.tf/metallb/api/v1beta2"
	"go.universe.tf/metallb/internal/bgp"
	"go.universe.tf/metallb/internal/bgp/community"
	bgpfrr "go.universe.tf/metallb/internal/bgp/frr"
	bgpfrrk8s "go.universe.tf/metallb/internal/bgp/frrk8s"
	"go.universe.tf/metallb/internal/logging"
	"go.universe.tf/metallb/internal/verifsim/bgpmodel"
	"go.universe.tf/metallb/internal/verifsim/frrinterp"
	"go.universe.tf/metallb/internal/verifsim/frrk8sinterp"
	frrv1beta1 "github.com/metallb/frr-k8s/api/v1beta1"
	"go.universe.tf/metallb/internal/config"
	"go.universe.tf/metallb/internal/k8s"
	"go.universe.tf/metallb/internal/k8s/controllers"
	"go.universe.tf/metallb/internal/k8s/epslices"
	"go.universe.tf/metallb/internal/layer2"
	"go.universe.tf/metallb/internal/speakerlist"
	"go.universe.tf/metallb/internal/verifsim/choice"
	"go.universe.tf/metallb/internal/verifsim/runner"
	"go.universe.tf/metallb/internal/verifsim/simk8s"
	"go.universe.tf/metallb/internal/verifsim/specspk"
	v1 "k8s.io/api/core/v1"
	discovery "k8s.io/api/discovery/v1"
	"k8s.io/apimachinery/pkg/types"
	ctrl "sigs.k8s.io/controller-runtime"
	"sigs.k8s.io/controller-runtime/pkg/client"
	"sigs.k8s.io/controller-runtime/pkg/event"
)

const metallbNS = "metallb-system"

var reloadKey = "metallbreload/reload"

type sknobs struct {
	nNodes, maxSvc, nOps int
	mapOrder, listPerm   bool
	lag, interleave      bool
	mlDisabled           bool
	ignoreExclude        bool
	bgpType              string
	fCrash, fSuspect     bool
	fResync, fListErr    bool
	fSetFail             bool // transient failures of session.Set while a service is being announced
	crashBudget          int
	avoidKnown           bool
	zeroEvent            bool
	backend              string // BGP back end: "rec" (recording session manager), "frr" (real FRR session manager, rendered text interpreted), "frrk8s" (real frr-k8s session manager, FRRConfiguration interpreted)
	nativeV6             bool // native BGP mode with IPv6 pools (configurations with BGP advertisements are then refused)
	bgpFocus             bool // swarm: a BGP-heavy run (peers and BGP advertisements present from the start, BGP-weighted operations)
}

type sworker struct {
	name string
	q    *simk8s.Queue
	rec  interface {
		Reconcile(context.Context, ctrl.Request) (ctrl.Result, error)
	}
	busy bool
}

// recorded BGP session
type recSession struct {
	mgr    *recManager
	params bgp.SessionParameters
	ads    []*bgp.Advertisement
	closed bool
	sets   int
}

func (s *recSession) Close() error { s.closed = true; return nil }
func (s *recSession) Set(advs ...*bgp.Advertisement) error {
	if w := s.mgr.w; w != nil && w.faultsOn && w.k.fSetFail && !s.mgr.noFault && announcePath() && w.ch.Bool(1, 10, "session Set fails?") {
		// a transient failure of the back end while a service is being announced: the handler
		// reports an error and the reconciler retries.  The retry is scheduled at once (before any
		// other event reaches this speaker): what MetalLB does when the service stops being
		// eligible between a failed back-end update and its retry is outside the properties.
		s.mgr.failedNow = true
		w.stat("fault.bgp-session-set-failed")
		w.logf("  FAULT session %s: Set fails (nothing applied)", s.params.SessionName)
		return errors.New("simulated: session update failed")
	}
	s.ads = append([]*bgp.Advertisement(nil), advs...)
	s.sets++
	s.mgr.sets++
	return nil
}

type recManager struct {
	sessions []*recSession
	sets     int
	w        *sworld
	// Set-failure fault: one failed in the handler call in progress / the retry must not fail again
	failedNow, noFault bool
}

// announcePath: the call comes from bgpController.SetBalancer (announcing a service), not from a
// withdrawal or a peer re-sync (whose errors MetalLB does not retry: ErrorNoRetry / "labels
// unchanged").
func announcePath() bool {
	pcs := make([]uintptr, 40)
	n := runtime.Callers(2, pcs)
	frames := runtime.CallersFrames(pcs[:n])
	set := false
	for {
		f, more := frames.Next()
		switch {
		case strings.HasSuffix(f.Function, "(*bgpController).SetBalancer"):
			set = true
		case strings.HasSuffix(f.Function, "(*bgpController).DeleteBalancer"), strings.HasSuffix(f.Function, "(*bgpController).syncPeers"),
			strings.HasSuffix(f.Function, "(*bgpController).SetConfig"), strings.HasSuffix(f.Function, "(*bgpController).SetNode"):
			return false
		}
		if !more {
			break
		}
	}
	return set
}

func (m *recManager) NewSession(l log.Logger, args bgp.SessionParameters) (bgp.Session, error) {
	s := &recSession{mgr: m, params: args}
	m.sessions = append(m.sessions, s)
	return s, nil
}
func (m *recManager) SyncBFDProfiles(profiles map[string]*config.BFDProfile) error { return nil }
func (m *recManager) SyncExtraInfo(extras string) error                             { return nil }
func (m *recManager) SetEventCallback(func(interface{}))                            {}

type simList struct {
	w   *sworld
	inc *spkInc
}

func (l simList) UsableSpeakers() speakerlist.SpeakerListInfo {
	nodes := map[string]bool{}
	for k, v := range l.inc.view {
		if v {
			nodes[k] = true
		}
	}
	return speakerlist.SpeakerListInfo{Nodes: nodes, Disabled: l.w.k.mlDisabled}
}
func (l simList) Rejoin() {}

type nopSvc struct{}

func (nopSvc) UpdateStatus(svc *v1.Service) error                             { return nil }
func (nopSvc) Infof(svc *v1.Service, desc, msg string, args ...interface{})  {}
func (nopSvc) Errorf(svc *v1.Service, desc, msg string, args ...interface{}) {}

type spkInc struct {
	// real FRR back ends (knob backend): what the node's FRR / frr-k8s was last given
	frrDrain func() (string, bool, error)
	frrText  string
	frrSeen  bool
	k8sCfg   *frrv1beta1.FRRConfiguration
	node     string
	id       int
	ctrl     *controller
	listener *k8s.Listener
	cache    *simk8s.Cache
	cl       *simk8s.Client
	svcRec   *controllers.ServiceReconciler
	cfgRec   *controllers.ConfigReconciler
	nodeRec  *controllers.NodeReconciler
	workers  []*sworker
	reload   chan event.GenericEvent
	started  bool
	sm       *recManager
	ann      *layer2.Announce
	view     map[string]bool
	depth    int
	cfgSeen  string // fingerprint of the raw resources of the configuration in force
	cfgCalls int
	fresh    bool // oracle-side incarnation (not part of the cluster)
	// listed finding "node first sight": decisions taken before a node was first seen are stale
	firstSights    int
	svcProcessedAt map[string]int
	cfgCallsAtQ     int
	restartedSinceQ bool
}

type sworld struct {
	env   *runner.Env
	ch    *choice.Chooser
	k     sknobs
	srv   *simk8s.Server
	now   time.Duration
	nodes []string
	spk   map[string]*spkInc // running speakers by node
	nInc  int
	stats map[string]int64
	log   []string
	sched fnvHash
	viol  *runner.Violation
	known []runner.Violation
	halt  bool

	opsLeft    int
	settling   bool
	faultsOn   bool
	steps      int
	quiesced   int
	nontrivial bool
	// C12: announcer per address at the previous quiescence, with the eligible set then
	prevAnnouncer map[string]string
	prevEligible  map[string][]string
	prevValid     bool
	prevNonFirst  map[string]bool
	cfgRelevantSinceQ bool
	suspected     map[string]string // speaker -> node it wrongly suspects
}

type fnvHash struct{ h uint64 }

func (f *fnvHash) add(s string) {
	h := fnv.New64a()
	var b [8]byte
	for i := 0; i < 8; i++ {
		b[i] = byte(f.h >> (8 * i))
	}
	h.Write(b[:])
	h.Write([]byte(s))
	f.h = h.Sum64()
}

func (w *sworld) logf(format string, a ...any) {
	if w.env.Verbose {
		w.log = append(w.log, fmt.Sprintf("[t=%v] ", w.now)+fmt.Sprintf(format, a...))
	}
}
func (w *sworld) stat(n string) { w.stats[n]++ }

func (w *sworld) violate(prop, inv, sig, msg string) {
	v := runner.Violation{Property: prop, Invariant: inv, Signature: sig, Message: msg}
	if sig != "" && w.env.Known[sig] {
		for _, k := range w.known {
			if k.Signature == sig {
				return
			}
		}
		w.known = append(w.known, v)
		w.logf("KNOWN FINDING %s: %s (run ends here)", v.Class(), msg)
		w.halt = true
		return
	}
	if w.viol == nil {
		w.viol = &v
		w.logf("VIOLATION %s: %s", v.Class(), msg)
	}
}

func (w *sworld) perm(label string) func(n int) []int {
	return func(n int) []int { return w.ch.Perm(n, label) }
}

func identity(n int) []int {
	p := make([]int, n)
	for i := range p {
		p[i] = i
	}
	return p
}

var spkKinds = []simk8s.Kind{"Service", "EndpointSlice", "Node", "IPAddressPool", "L2Advertisement", "BGPAdvertisement", "BGPPeer", "BFDProfile", "Community", "Secret", "Namespace", "ConfigMap"}

type cfgRecordingClient struct {
	*simk8s.Client
	inc *spkInc
	fp  *[]string
}

func (r cfgRecordingClient) List(ctx context.Context, list client.ObjectList, opts ...client.ListOption) error {
	err := r.Client.List(ctx, list, opts...)
	if err == nil {
		items := []string{}
		switch l := list.(type) {
		case *metallbv1beta1.IPAddressPoolList:
			*r.fp = nil // first list of a reconcile pass
			for _, o := range l.Items {
				items = append(items, "pool/"+o.Name+"@"+o.ResourceVersion)
			}
		case *metallbv1beta2.BGPPeerList:
			for _, o := range l.Items {
				items = append(items, "peer/"+o.Name+"@"+o.ResourceVersion)
			}
		case *metallbv1beta1.L2AdvertisementList:
			for _, o := range l.Items {
				items = append(items, "l2/"+o.Name+"@"+o.ResourceVersion)
			}
		case *metallbv1beta1.BGPAdvertisementList:
			for _, o := range l.Items {
				items = append(items, "bgpadv/"+o.Name+"@"+o.ResourceVersion)
			}
		case *metallbv1beta1.CommunityList:
			for _, o := range l.Items {
				items = append(items, "comm/"+o.Name+"@"+o.ResourceVersion)
			}
		case *v1.NodeList:
			for _, o := range l.Items {
				items = append(items, "node/"+o.Name+"#"+fmt.Sprint(o.Labels))
			}
		}
		sort.Strings(items)
		*r.fp = append(*r.fp, items...)
	}
	return err
}

// apiFingerprint is the same fingerprint computed on the API server's current objects.
func (w *sworld) apiFingerprint() string {
	var all []string
	add := func(kind simk8s.Kind, prefix string, nodeStyle bool) {
		var items []string
		for _, k := range w.srv.Keys(kind) {
			o := w.srv.Get(kind, k)
			if nodeStyle {
				items = append(items, prefix+o.GetName()+"#"+fmt.Sprint(o.GetLabels()))
			} else {
				items = append(items, prefix+o.GetName()+"@"+o.GetResourceVersion())
			}
		}
		sort.Strings(items)
		all = append(all, items...)
	}
	add("IPAddressPool", "pool/", false)
	add("BGPPeer", "peer/", false)
	add("L2Advertisement", "l2/", false)
	add("BGPAdvertisement", "bgpadv/", false)
	add("Community", "comm/", false)
	add("Node", "node/", true)
	return strings.Join(all, " ")
}

func (w *sworld) newSpeaker(node string, fresh bool) *spkInc {
	w.nInc++
	inc := &spkInc{node: node, id: w.nInc, view: map[string]bool{node: true}, fresh: fresh, svcProcessedAt: map[string]int{}, cfgCallsAtQ: -1, restartedSinceQ: true}
	inc.cache = simk8s.NewCache(w.srv, spkKinds)
	inc.cl = &simk8s.Client{C: inc.cache}
	inc.cl.Index = map[simk8s.Kind]map[string]func(client.Object) []string{
		"EndpointSlice": {epslices.SlicesServiceIndexName: func(o client.Object) []string {
			k, err := epslices.ServiceKeyForSlice(o.(*discovery.EndpointSlice))
			if err != nil {
				return nil
			}
			return []string{k.String()}
		}},
	}
	if w.k.listPerm && !fresh {
		inc.cl.ListPerm = w.perm("list order")
	}
	svcQ, cfgQ, nodeQ := simk8s.NewQueue("service"), simk8s.NewQueue("config"), simk8s.NewQueue("node")
	inc.reload = make(chan event.GenericEvent, 1024)
	inc.sm = &recManager{}
	if !fresh {
		inc.sm.w = w
	}
	var sm bgp.SessionManager = inc.sm
	switch w.k.backend {
	case "frr":
		sm, inc.frrDrain = bgpfrr.VerifNewSyncSessionManager(log.NewNopLogger())
	case "frrk8s":
		sm = bgpfrrk8s.NewSessionManager(log.NewNopLogger(), logging.LevelInfo, node, metallbNS)
		sm.SetEventCallback(func(i interface{}) {
			if cfg, ok := i.(frrv1beta1.FRRConfiguration); ok {
				inc.k8sCfg = &cfg
			}
		})
	}
	newBGP = func(cfg controllerConfig) bgp.SessionManager { return sm }
	layer2.VerifInterfaces = []string{"eth0", "eth1"}
	logger := log.NewNopLogger()
	c, err := newController(controllerConfig{
		MyNode: node, Namespace: metallbNS, FRRK8sNamespace: metallbNS, Logger: logger,
		SList: simList{w, inc}, bgpType: bgpImplementation(w.k.bgpType), IgnoreExcludeLB: w.k.ignoreExclude,
		Layer2StatusChange:    func(types.NamespacedName) {},
		BGPAdsChangedCallback: func(string) {},
	})
	if err != nil {
		panic(err)
	}
	c.client = nopSvc{}
	inc.ctrl = c
	inc.ann = c.protocolHandlers[config.Layer2].(*layer2Controller).announcer
	inc.listener = &k8s.Listener{ServiceChanged: c.SetBalancer, ConfigChanged: c.SetConfig, NodeChanged: c.SetNode}
	reload := func() { svcQ.Add(reloadKey) }
	inc.svcRec = &controllers.ServiceReconciler{Client: inc.cl, Logger: logger, Endpoints: true, Reload: inc.reload,
		Handler: func(l log.Logger, name string, svc *v1.Service, eps []discovery.EndpointSlice) controllers.SyncState {
			w.interleave(inc)
			w.sched.add("h:svc:" + node + ":" + name)
			inc.svcProcessedAt[name] = inc.firstSights
			res := inc.listener.ServiceHandler(l, name, svc, eps)
			if inc.sm.failedNow {
				inc.sm.failedNow = false
				w.logf("  [%s] SetBalancer(%s) -> %s after the failed session update; the reconciler retries", node, name, syncName(res))
				if res != controllers.SyncStateError {
					w.violate(firstProp(w.env), "failed-backend-update-not-reported", "", fmt.Sprintf("node %s: the BGP session refused the update for %s but the handler returned %s (no retry will happen)", node, name, syncName(res)))
				}
				inc.sm.noFault = true
				res = inc.listener.ServiceHandler(l, name, svc, eps)
				inc.sm.noFault = false
			}
			inc.ann.VerifDrainSpam()
			w.logf("  [%s] SetBalancer(%s) -> %s  l2=%v bgp=%v", node, name, syncName(res), c.announced[config.Layer2][name], c.announced[config.BGP][name])
			return res
		}}
	var fp []string
	validate := config.DiscardFRROnly
	if w.k.bgpType != "native" {
		validate = config.DiscardNativeOnly
	}
	inc.cfgRec = &controllers.ConfigReconciler{Client: cfgRecordingClient{inc.cl, inc, &fp}, Logger: logger, Namespace: metallbNS, ValidateConfig: validate, ForceReload: reload, BGPType: w.k.bgpType,
		Handler: func(l log.Logger, cfg *config.Config) controllers.SyncState {
			w.interleave(inc)
			w.sched.add("h:cfg:" + node)
			res := inc.listener.ConfigHandler(l, cfg)
			inc.cfgCalls++
			if res == controllers.SyncStateReprocessAll {
				inc.cfgSeen = strings.Join(fp, " ")
			}
			w.logf("  [%s] SetConfig(pools=%d peers=%d) -> %s", node, len(cfg.Pools.ByName), len(cfg.Peers), syncName(res))
			return res
		}}
	inc.nodeRec = &controllers.NodeReconciler{Client: inc.cl, Logger: logger, NodeName: node, ForceReload: reload,
		Handler: func(l log.Logger, n *v1.Node) controllers.SyncState {
			w.interleave(inc)
			w.sched.add("h:node:" + node + ":" + n.Name)
			_, knownNode := c.nodes[n.Name]
			res := inc.listener.NodeHandler(l, n)
			if !knownNode {
				inc.firstSights++
				w.stat("probe.node-first-sight")
				if w.k.avoidKnown && !fresh {
					// listed finding: first sight of a node requests no re-processing; the environment
					// supplies the "unrelated event" that repairs it, so that other defects stay visible
					svcQ.Add(reloadKey)
				}
			}
			w.logf("  [%s] SetNode(%s) -> %s", node, n.Name, syncName(res))
			return res
		}}
	inc.workers = []*sworker{{name: "service", q: svcQ, rec: inc.svcRec}, {name: "config", q: cfgQ, rec: inc.cfgRec}, {name: "node", q: nodeQ, rec: inc.nodeRec}}
	inc.cl.Hook = func(op string, k simk8s.Kind) error {
		w.interleave(inc)
		if !fresh && w.faultsOn && w.k.fListErr && op == "list" && w.ch.Bool(1, 60, "list fails?") {
			w.stat("fault.list-error")
			return fmt.Errorf("simulated: list failed")
		}
		return nil
	}
	nodePred := controllers.NodeReconcilerPredicate()
	inc.cache.OnEvent = func(ev simk8s.Event) {
		switch ev.Kind {
		case "Service":
			svcQ.Add(ev.Key)
		case "EndpointSlice":
			obj := ev.New
			if obj == nil {
				obj = ev.Old
			}
			if k, err := epslices.ServiceKeyForSlice(obj.(*discovery.EndpointSlice)); err == nil {
				svcQ.Add(k.String())
			}
		default:
			// every other kind feeds the config reconciler (update events through its filter)
			if ev.Type == simk8s.Modified {
				if controllers.VerifConfigReconcilerUpdateFilter(event.UpdateEvent{ObjectOld: ev.Old, ObjectNew: ev.New}) {
					cfgQ.Add(ev.Key)
				} else {
					w.stat("probe.config-update-filtered")
				}
			} else {
				cfgQ.Add(ev.Key)
			}
		}
		if ev.Kind == "Node" {
			pass := false
			switch ev.Type {
			case simk8s.Added:
				pass = nodePred.Create(event.CreateEvent{Object: ev.New})
			case simk8s.Modified:
				pass = nodePred.Update(event.UpdateEvent{ObjectOld: ev.Old, ObjectNew: ev.New})
			case simk8s.Deleted:
				pass = nodePred.Delete(event.DeleteEvent{Object: ev.Old})
			}
			if pass {
				nodeQ.Add(ev.Key)
			}
		}
	}
	if !fresh {
		w.logf("START speaker on %s (incarnation %d)", node, inc.id)
		w.sched.add("start:" + node)
	}
	return inc
}

func syncName(s controllers.SyncState) string {
	return [...]string{"Success", "Error", "ReprocessAll", "ErrorNoRetry"}[s]
}

func (w *sworld) applyEager() {
	if w.k.lag {
		return
	}
	for _, n := range w.nodes {
		inc := w.spk[n]
		if inc == nil {
			continue
		}
		for {
			l := inc.cache.Lagging()
			if len(l) == 0 {
				break
			}
			inc.cache.ApplyNext(l[0])
		}
	}
}

func (w *sworld) drainReload(inc *spkInc) {
	for {
		select {
		case <-inc.reload:
			inc.workers[0].q.Add(reloadKey)
		default:
			return
		}
	}
}

func reqFor(key string) ctrl.Request {
	i := strings.IndexByte(key, '/')
	return ctrl.Request{NamespacedName: types.NamespacedName{Namespace: key[:i], Name: key[i+1:]}}
}

func (w *sworld) workerStep(inc *spkInc, wk *sworker) {
	key := wk.q.Get()
	wk.busy = true
	w.steps++
	if !inc.fresh {
		w.sched.add("step:" + inc.node + ":" + wk.name + ":" + key)
		w.logf("[%s] %s worker: reconcile %s", inc.node, wk.name, key)
	}
	res, err := wk.rec.Reconcile(context.Background(), reqFor(key))
	wk.busy = false
	switch {
	case err != nil:
		wk.q.AddRateLimited(key, w.now)
		w.stat("probe.reconcile-error-requeue")
	case res.RequeueAfter > 0:
		wk.q.Forget(key)
		wk.q.AddAfter(key, w.now+res.RequeueAfter)
	case res.Requeue:
		wk.q.AddRateLimited(key, w.now)
	default:
		wk.q.Forget(key)
	}
	wk.q.Done(key)
	w.drainReload(inc)
}

func (w *sworld) interleave(inc *spkInc) {
	if inc.fresh || !w.k.interleave || !inc.started || inc.depth >= 3 || w.spk[inc.node] != inc {
		return
	}
	for {
		if !w.ch.Bool(1, 6, "interleave?") {
			return
		}
		var acts []func()
		for _, wk := range inc.workers {
			wk := wk
			if !wk.busy && wk.q.Len() > 0 {
				acts = append(acts, func() { w.workerStep(inc, wk) })
			}
		}
		for _, k := range inc.cache.Lagging() {
			k := k
			acts = append(acts, func() { w.applyEvent(inc, k) })
		}
		if len(acts) == 0 {
			return
		}
		i := w.ch.Intn(len(acts), "interleave what")
		w.stat("probe.interleaved")
		inc.depth++
		acts[i]()
		inc.depth--
		if w.spk[inc.node] != inc {
			return
		}
	}
}

func (w *sworld) applyEvent(inc *spkInc, k simk8s.Kind) {
	ev := inc.cache.ApplyNext(k)
	if !inc.fresh {
		w.sched.add("apply:" + inc.node + ":" + string(k) + ":" + ev.Key)
		w.logf("[%s] informer: %s %s %s", inc.node, ev.Type, k, ev.Key)
	}
}

func (w *sworld) aliveSet() map[string]bool {
	m := map[string]bool{}
	for n, inc := range w.spk {
		if inc != nil {
			m[n] = true
		}
	}
	return m
}

func (w *sworld) viewCurrent(inc *spkInc) bool {
	alive := w.aliveSet()
	if len(alive) != len(inc.view) {
		return false
	}
	for n := range alive {
		if !inc.view[n] {
			return false
		}
	}
	return true
}

func (w *sworld) incQuiescent(inc *spkInc) bool {
	if len(inc.cache.Unsynced()) > 0 || len(inc.cache.Lagging()) > 0 || !inc.started {
		return false
	}
	for _, wk := range inc.workers {
		if !wk.q.Idle() {
			return false
		}
	}
	return true
}

func (w *sworld) quiescent() bool {
	for _, n := range w.nodes {
		inc := w.spk[n]
		if inc == nil {
			continue
		}
		if !w.incQuiescent(inc) || (!w.k.mlDisabled && !w.viewCurrent(inc)) {
			return false
		}
	}
	return len(w.suspected) == 0
}

func (w *sworld) crashSpeaker(node string, restart bool) {
	w.logf("CRASH speaker on %s (restart=%v)", node, restart)
	w.sched.add("crash:" + node)
	w.spk[node] = nil
	delete(w.suspected, node)
	if restart {
		w.spk[node] = w.newSpeaker(node, false)
	}
}

type saction struct {
	name   string
	weight int
	run    func()
}

func (w *sworld) step() bool {
	var acts []saction
	for _, n := range w.nodes {
		inc := w.spk[n]
		if inc == nil {
			continue
		}
		n := n
		if un := inc.cache.Unsynced(); len(un) > 0 {
			k := un[0]
			acts = append(acts, saction{"sync", 6, func() {
				p := identity
				if w.k.listPerm {
					p = w.perm("initial list order")
				}
				inc.cache.Sync(k, p)
				w.sched.add("sync:" + n + ":" + string(k))
			}})
		} else {
			if !inc.started {
				inc.started = true
				if w.k.listPerm {
					for _, wk := range inc.workers {
						wk.q.Shuffle(w.perm("initial queue order"))
					}
				}
				w.logf("[%s] caches synced, workers start", n)
			}
			for _, wk := range inc.workers {
				wk := wk
				if wk.q.Len() > 0 {
					acts = append(acts, saction{"step", 8, func() { w.workerStep(inc, wk) }})
				}
			}
		}
		for _, k := range inc.cache.Lagging() {
			k := k
			acts = append(acts, saction{"apply", 5, func() { w.applyEvent(inc, k) }})
		}
		if !w.k.mlDisabled && !w.viewCurrent(inc) && w.suspected[n] == "" {
			acts = append(acts, saction{"membership", 5, func() {
				inc.view = w.aliveSet()
				inc.workers[0].q.Add(reloadKey) // memberlist join/leave event -> ForceSync
				w.sched.add("ml:" + n)
				w.logf("[%s] memberlist view -> %v", n, sortedSet(inc.view))
			}})
		}
		if s := w.suspected[n]; s != "" {
			acts = append(acts, saction{"unsuspect", 3, func() {
				delete(w.suspected, n)
				inc.view = w.aliveSet()
				inc.workers[0].q.Add(reloadKey)
				w.logf("[%s] memberlist: %s is alive after all; view -> %v", n, s, sortedSet(inc.view))
			}})
		}
	}
	if w.opsLeft > 0 && !w.settling {
		acts = append(acts, saction{"env", 6, func() { w.envOp() }})
	}
	var next time.Duration
	haveTimer := false
	for _, n := range w.nodes {
		if inc := w.spk[n]; inc != nil {
			for _, wk := range inc.workers {
				if at, ok := wk.q.NextReady(); ok && (!haveTimer || at < next) {
					next, haveTimer = at, true
				}
			}
		}
	}
	if haveTimer {
		wgt := 1
		if len(acts) == 0 {
			wgt = 8
		}
		acts = append(acts, saction{"clock", wgt, func() {
			if next > w.now {
				w.now = next
			}
			for _, n := range w.nodes {
				if inc := w.spk[n]; inc != nil {
					for _, wk := range inc.workers {
						wk.q.Tick(w.now)
					}
				}
			}
			w.sched.add("clock")
		}})
	}
	if w.faultsOn {
		var running []string
		for _, n := range w.nodes {
			if w.spk[n] != nil && w.spk[n].started {
				running = append(running, n)
			}
		}
		if w.k.fCrash && w.k.crashBudget > 0 && len(running) > 0 {
			acts = append(acts, saction{"crash", 1, func() {
				w.k.crashBudget--
				n := running[w.ch.Intn(len(running), "crash which")]
				w.stat("fault.speaker-crash-restart")
				w.crashSpeaker(n, true)
			}})
		}
		if w.k.fSuspect && !w.k.mlDisabled && len(running) > 1 && len(w.suspected) == 0 {
			acts = append(acts, saction{"suspect", 1, func() {
				a := running[w.ch.Intn(len(running), "suspecting speaker")]
				b := running[w.ch.Intn(len(running), "suspected node")]
				if a == b {
					return
				}
				w.stat("fault.false-suspicion")
				w.suspected[a] = b
				v := w.aliveSet()
				delete(v, b)
				w.spk[a].view = v
				w.spk[a].workers[0].q.Add(reloadKey)
				w.logf("[%s] memberlist FAULT: wrongly suspects %s", a, b)
			}})
		}
		if w.k.fResync && len(running) > 0 {
			acts = append(acts, saction{"resync", 1, func() {
				n := running[w.ch.Intn(len(running), "resync speaker")]
				inc := w.spk[n]
				k := spkKinds[w.ch.Intn(len(spkKinds), "resync kind")]
				keys := inc.cache.Keys(k)
				if len(keys) == 0 {
					return
				}
				w.stat("fault.duplicate-event")
				inc.cache.Resync(k, keys[w.ch.Intn(len(keys), "resync key")])
			}})
		}
	}
	if len(acts) == 0 {
		return false
	}
	total := 0
	for _, a := range acts {
		total += a.weight
	}
	r := w.ch.Intn(total, "schedule")
	for _, a := range acts {
		if r < a.weight {
			a.run()
			return true
		}
		r -= a.weight
	}
	return true
}

func (w *sworld) runProtected() (progressed bool) {
	defer func() {
		if r := recover(); r != nil {
			if _, ok := r.(choice.ErrBudget); ok {
				panic(r)
			}
			if mlb, where := runner.PanicOrigin(string(debug.Stack())); mlb {
				w.violate(firstProp(w.env), "panic-in-metallb", "", fmt.Sprintf("MetalLB code panicked: %v (at %s)", r, where))
				progressed = false
				return
			}
			panic(r)
		}
	}()
	return w.step()
}

func (w *sworld) settle(bound int) bool {
	save := w.settling
	w.settling = true
	defer func() { w.settling = save }()
	for i := 0; i < bound; i++ {
		if w.viol != nil || w.halt || w.quiescent() {
			return true
		}
		if !w.runProtected() {
			return w.quiescent()
		}
	}
	return w.quiescent()
}

// runFresh boots an oracle-side speaker for node on the current API state and runs it alone to
// quiescence (sorted orders, no faults).
func (w *sworld) runFresh(node string) *spkInc {
	inc := w.newSpeaker(node, true)
	inc.view = w.aliveSet()
	inc.view[node] = true
	for _, k := range spkKinds {
		inc.cache.Sync(k, identity)
	}
	inc.started = true
	reloaded := false
	for i := 0; i < 20000; i++ {
		progressed := false
		for _, wk := range inc.workers {
			if wk.q.Len() > 0 {
				w.workerStep(inc, wk)
				progressed = true
				break
			}
		}
		if !progressed {
			var next time.Duration
			have := false
			for _, wk := range inc.workers {
				if at, ok := wk.q.NextReady(); ok && (!have || at < next) {
					next, have = at, true
				}
			}
			if !have {
				if !reloaded {
					// the reference speaker ends with one full re-sync on its complete view, so that it does
					// not itself depend on the start-up order of node, configuration and service events
					reloaded = true
					inc.workers[0].q.Add(reloadKey)
					continue
				}
				break
			}
			for _, wk := range inc.workers {
				wk.q.Tick(next)
			}
		}
	}
	return inc
}

func sortedSet(m map[string]bool) []string {
	var out []string
	for k, v := range m {
		if v {
			out = append(out, k)
		}
	}
	sort.Strings(out)
	return out
}

func firstProp(env *runner.Env) string {
	var ps []string
	for p := range env.Props {
		ps = append(ps, p)
	}
	sort.Strings(ps)
	if len(ps) == 0 {
		return "C00"
	}
	return ps[0]
}

// ---- observation ----

type observation struct {
	l2Decided map[string]bool     // service -> this node decided to announce over layer 2
	l2Held    map[string][]string // service -> "ip@scope" held by the announcer
	bgpRoutes map[string][]string // peer name -> sorted distinct routes
	bgpSvc    map[string][]string // service -> peers it is reported as advertised to
	// real FRR back ends: structural problems the interpreter found in the generated configuration
	backendProblems []string
}

func commString(c community.BGPCommunity) string {
	if community.IsLarge(c) {
		return "large:" + c.String()
	}
	return c.String()
}

func (w *sworld) observe(inc *spkInc) observation {
	o := observation{l2Decided: map[string]bool{}, l2Held: inc.ann.VerifAnnounced(), bgpRoutes: map[string][]string{}, bgpSvc: map[string][]string{}}
	for svc, v := range inc.ctrl.announced[config.Layer2] {
		if v {
			o.l2Decided[svc] = true
		}
	}
	if w.k.backend == "frr" || w.k.backend == "frrk8s" {
		w.observeBackend(inc, &o)
	}
	for _, s := range inc.sm.sessions {
		if s.closed {
			continue
		}
		seen := map[string]bool{}
		var rs []string
		for _, ad := range s.ads {
			var cs []string
			for _, c := range ad.Communities {
				cs = append(cs, commString(c))
			}
			sort.Strings(cs)
			r := specspk.Route{Prefix: ad.Prefix.String(), LocalPref: ad.LocalPref, Communities: strings.Join(cs, ",")}.String()
			if !seen[r] {
				seen[r] = true
				rs = append(rs, r)
			}
		}
		sort.Strings(rs)
		o.bgpRoutes[s.params.SessionName] = rs
	}
	for _, key := range w.srv.Keys("Service") {
		if ps := inc.ctrl.bgpPeersFetcher(key); ps != nil && ps.Len() > 0 {
			l := ps.UnsortedList()
			sort.Strings(l)
			o.bgpSvc[key] = l
		}
	}
	return o
}

// observeBackend reads what the node's FRR (frr.conf text) or frr-k8s (FRRConfiguration) was last
// given by the real session manager, interprets it, and reports per configured peer the offered
// routes in the format of the recording back end.  In FRR semantics the communities requested for
// one prefix by several advertisements are one attribute set; the oracle merges likewise.
func (w *sworld) observeBackend(inc *spkInc, o *observation) {
	var d *bgpmodel.Denotation
	var problems []string
	switch w.k.backend {
	case "frr":
		if inc.frrDrain != nil {
			if text, ok, err := inc.frrDrain(); ok {
				if err != nil {
					panic("harness trouble: templateConfig failed: " + err.Error())
				}
				inc.frrText, inc.frrSeen = text, true
			}
		}
		if !inc.frrSeen {
			return
		}
		cfg, err := frrinterp.Parse(inc.frrText)
		if err != nil {
			panic("harness trouble: frrinterp: " + err.Error() + "\n" + inc.frrText)
		}
		d, problems = cfg.Denote()
	case "frrk8s":
		if inc.k8sCfg == nil {
			return
		}
		d, problems = frrk8sinterp.Denote(inc.k8sCfg, inc.node)
	}
	o.backendProblems = problems
	peerByAddr := map[string]string{}
	for _, key := range w.srv.Keys("BGPPeer") {
		p := w.srv.Get("BGPPeer", key).(*metallbv1beta2.BGPPeer)
		peerByAddr[p.Spec.Address] = p.Name
	}
	for _, r := range d.Routers {
		for addr, nb := range r.Neighbors {
			name, ok := peerByAddr[addr]
			if !ok {
				name = "unknown-neighbor-" + addr
			}
			rs := []string{}
			for prefix, off := range nb.Offers {
				cs := append(append([]string{}, off.Comms...), prefixed("large:", off.Large)...)
				sort.Strings(cs)
				rs = append(rs, specspk.Route{Prefix: prefix, LocalPref: off.LocalPref, Communities: strings.Join(cs, ",")}.String())
			}
			sort.Strings(rs)
			o.bgpRoutes[name] = rs
		}
	}
}

func prefixed(p string, l []string) []string {
	var out []string
	for _, x := range l {
		out = append(out, p+x)
	}
	return out
}

func (o observation) String() string {
	return fmt.Sprintf("l2decided=%v l2held=%v bgp=%v bgpSvc=%v", sortedSet(o.l2Decided), o.l2Held, o.bgpRoutes, o.bgpSvc)
}

var _ = net.ParseIP
