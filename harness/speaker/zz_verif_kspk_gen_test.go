//go:build verif

package main

import (
	"fmt"
	"net/netip"
	"sort"

	metallbv1beta1 "go.universe.tf/metallb/api/v1beta1"
	metallbv1beta2 "go.universe.tf/metallb/api/v1beta2"
	"go.universe.tf/metallb/internal/verifsim/specalloc"
	"go.universe.tf/metallb/internal/verifsim/specspk"
	v1 "k8s.io/api/core/v1"
	discovery "k8s.io/api/discovery/v1"
	metav1 "k8s.io/apimachinery/pkg/apis/meta/v1"
)

var spkSvcNames = []string{"s1", "s2", "s3", "s4", "s5", "s6"}
var poolDefs = map[string][]string{
	"p1": {"10.1.0.0/28", "fd01::/124"},
	"p2": {"10.2.0.0/28"},
	"p3": {"fd03::/124"},
}

// poolDef: the native BGP mode refuses any configuration in which a BGP advertisement selects a
// pool with IPv6 addresses; most native runs therefore use IPv4-only pools (the refusal path stays
// covered by the rest).
func (w *sworld) poolDef(name string) []string {
	if w.k.bgpType == "native" && !w.k.nativeV6 {
		return map[string][]string{"p1": {"10.1.0.0/28", "10.1.1.0/28"}, "p2": {"10.2.0.0/28"}, "p3": {"10.3.0.0/28"}}[name]
	}
	return poolDefs[name]
}

func (w *sworld) pick(n int, l string) int { return w.ch.Intn(n, l) }

func zoneSel(z string) []metav1.LabelSelector {
	return []metav1.LabelSelector{{MatchLabels: map[string]string{"zone": z}}}
}

func (w *sworld) setupCluster() {
	for i, n := range w.nodes {
		node := &v1.Node{ObjectMeta: metav1.ObjectMeta{Name: n, Labels: map[string]string{"zone": []string{"a", "b"}[i%2], "kubernetes.io/hostname": n}}}
		node.Status.Addresses = []v1.NodeAddress{{Type: v1.NodeInternalIP, Address: fmt.Sprintf("192.168.0.%d", i+1)}}
		if w.pick(8, "node initially unavailable") == 0 {
			node.Status.Conditions = []v1.NodeCondition{{Type: v1.NodeNetworkUnavailable, Status: v1.ConditionTrue}}
		}
		if w.pick(10, "node initially excluded") == 0 {
			node.Labels[v1.LabelNodeExcludeBalancers] = ""
		}
		_ = w.srv.Create(node)
	}
	_ = w.srv.Create(&v1.Namespace{ObjectMeta: metav1.ObjectMeta{Name: "default"}})
	_ = w.srv.Create(&metallbv1beta1.Community{ObjectMeta: metav1.ObjectMeta{Namespace: metallbNS, Name: "comms"},
		Spec: metallbv1beta1.CommunitySpec{Communities: []metallbv1beta1.CommunityAlias{{Name: "c1", Value: "65000:100"}, {Name: "c2", Value: "65000:200"}}}})
	np := 1 + w.pick(3, "initial pools")
	for _, name := range []string{"p1", "p2", "p3"}[:np] {
		w.createPool(name)
	}
	nl := w.pick(3, "initial l2advs")
	nb := w.pick(3, "initial bgpadvs")
	npeer := w.pick(3, "initial peers")
	nsvc := w.pick(4, "initial services")
	if w.k.bgpFocus {
		nl, nb, npeer, nsvc = nl/2, 1+nb/2+nb%2, 1+npeer/2+npeer%2, 1+nsvc
	}
	for i := 0; i < nl; i++ {
		w.opL2Adv()
	}
	for i := 0; i < nb; i++ {
		w.opBGPAdv()
	}
	for i := npeer; i > 0; i-- {
		w.opPeer()
	}
	for i := nsvc; i > 0; i-- {
		w.opCreateService()
	}
}

func (w *sworld) createPool(name string) {
	p := &metallbv1beta1.IPAddressPool{ObjectMeta: metav1.ObjectMeta{Namespace: metallbNS, Name: name, Labels: map[string]string{"tier": []string{"x", "y"}[w.pick(2, "pool tier")]}}}
	p.Spec.Addresses = w.poolDef(name)
	if w.pick(2, "pool pinned") == 1 {
		// several pools pinned to the same namespaces (C18)
		p.Spec.AllocateTo = &metallbv1beta1.ServiceAllocation{Priority: w.pick(3, "pool priority"), Namespaces: []string{"default", "other"}[:1+w.pick(2, "pool namespaces")]}
		if w.pick(2, "pool svc selector") == 1 {
			p.Spec.AllocateTo.ServiceSelectors = []metav1.LabelSelector{{MatchLabels: map[string]string{"app": "x"}}}
		}
	}
	_ = w.srv.Create(p)
	w.logf("ENV create pool %s %v labels=%v", name, p.Spec.Addresses, p.Labels)
}

func (w *sworld) poolNames() []string {
	var out []string
	for _, k := range w.srv.Keys("IPAddressPool") {
		out = append(out, w.srv.Get("IPAddressPool", k).GetName())
	}
	return out
}

func (w *sworld) genPoolSel() ([]string, []metav1.LabelSelector) {
	switch w.pick(4, "adv pools") {
	case 0:
		return nil, nil
	case 1:
		all := []string{"p1", "p2", "p3"}
		return []string{all[w.pick(3, "adv pool")]}, nil
	case 2:
		return []string{"p1", "p2"}, nil
	default:
		return nil, []metav1.LabelSelector{{MatchLabels: map[string]string{"tier": []string{"x", "y"}[w.pick(2, "adv pool tier")]}}}
	}
}

func (w *sworld) genNodeSel() []metav1.LabelSelector {
	switch w.pick(4, "adv nodes") {
	case 0, 1:
		return nil
	case 2:
		return zoneSel("a")
	default:
		return zoneSel("b")
	}
}

func (w *sworld) opL2Adv() bool {
	name := []string{"l1", "l2", "l3"}[w.pick(3, "l2adv name")]
	key := metallbNS + "/" + name
	if old := w.srv.Get("L2Advertisement", key); old != nil && w.pick(3, "delete l2adv") == 0 {
		_ = w.srv.Delete("L2Advertisement", key)
		w.logf("ENV delete l2advertisement %s", name)
		return true
	}
	adv := &metallbv1beta1.L2Advertisement{ObjectMeta: metav1.ObjectMeta{Namespace: metallbNS, Name: name}}
	adv.Spec.IPAddressPools, adv.Spec.IPAddressPoolSelectors = w.genPoolSel()
	adv.Spec.NodeSelectors = w.genNodeSel()
	switch w.pick(6, "l2 interfaces") {
	case 0:
		adv.Spec.Interfaces = []string{"eth0"}
	case 1:
		adv.Spec.Interfaces = []string{"eth1", "eth0"}
	}
	if w.srv.Get("L2Advertisement", key) != nil {
		_ = w.srv.Update(adv)
	} else {
		_ = w.srv.Create(adv)
	}
	w.logf("ENV set l2advertisement %s pools=%v poolsel=%d nodesel=%v ifs=%v", name, adv.Spec.IPAddressPools, len(adv.Spec.IPAddressPoolSelectors), adv.Spec.NodeSelectors, adv.Spec.Interfaces)
	return true
}

func (w *sworld) opBGPAdv() bool {
	idx := w.pick(3, "bgpadv name")
	name := []string{"b1", "b2", "b3"}[idx]
	key := metallbNS + "/" + name
	delAdv := 3
	if w.k.bgpFocus {
		delAdv = 6
	}
	if old := w.srv.Get("BGPAdvertisement", key); old != nil && w.pick(delAdv, "delete bgpadv") == 0 {
		_ = w.srv.Delete("BGPAdvertisement", key)
		w.logf("ENV delete bgpadvertisement %s", name)
		return true
	}
	adv := &metallbv1beta1.BGPAdvertisement{ObjectMeta: metav1.ObjectMeta{Namespace: metallbNS, Name: name}}
	adv.Spec.IPAddressPools, adv.Spec.IPAddressPoolSelectors = w.genPoolSel()
	adv.Spec.NodeSelectors = w.genNodeSel()
	// distinct aggregation lengths per advertisement keep local preferences compatible
	// the local preference is a function of the aggregation lengths, so that advertisements with
	// equal aggregation (which may then produce identical routes) never conflict
	ai := w.pick(3, "aggregation")
	agg4 := []int32{32, 30, 28}[ai]
	agg6 := []int32{128, 126, 124}[ai]
	if w.pick(6, "independent v6 aggregation") == 0 {
		// the IPv6 length no longer follows the IPv4 one: two advertisements with different local
		// preferences may then differ in one family only, which a dual-stack pool must refuse
		agg6 = []int32{128, 126, 124}[w.pick(3, "aggregation v6")]
	}
	tooShort := 10
	if w.k.bgpFocus {
		tooShort = 40
	}
	if w.pick(tooShort, "too short aggregation") == 0 {
		agg4 = 24 // shorter than the /28 pools: the configuration must be rejected (whatever the order)
	}
	if w.pick(2, "agg default") == 0 && ai == 0 {
		adv.Spec.AggregationLength, adv.Spec.AggregationLengthV6 = nil, nil
	} else {
		adv.Spec.AggregationLength, adv.Spec.AggregationLengthV6 = &agg4, &agg6
	}
	adv.Spec.LocalPref = []uint32{0, 100, 200}[ai]
	switch w.pick(5, "communities") {
	case 1:
		adv.Spec.Communities = []string{"65000:1"}
	case 2:
		adv.Spec.Communities = []string{"c1", "65000:2"}
	case 3:
		adv.Spec.Communities = []string{"c2"}
	case 4:
		if w.k.bgpType != "native" {
			adv.Spec.Communities = []string{"large:1:2:3", "65000:1"}
		}
	}
	switch w.pick(4, "adv peers") {
	case 1:
		adv.Spec.Peers = []string{"peer1"}
	case 2:
		adv.Spec.Peers = []string{"peer2", "peer1"}
	}
	if w.srv.Get("BGPAdvertisement", key) != nil {
		_ = w.srv.Update(adv)
	} else {
		_ = w.srv.Create(adv)
	}
	w.logf("ENV set bgpadvertisement %s pools=%v poolsel=%d nodesel=%v agg=%v/%v lp=%d comm=%v peers=%v", name, adv.Spec.IPAddressPools, len(adv.Spec.IPAddressPoolSelectors), adv.Spec.NodeSelectors, deref(adv.Spec.AggregationLength), deref(adv.Spec.AggregationLengthV6), adv.Spec.LocalPref, adv.Spec.Communities, adv.Spec.Peers)
	return true
}

func deref(p *int32) any {
	if p == nil {
		return "default"
	}
	return *p
}

func (w *sworld) opPeer() bool {
	i := w.pick(3, "peer name")
	name := []string{"peer1", "peer2", "peer3"}[i]
	key := metallbNS + "/" + name
	delPeer := 3
	if w.k.bgpFocus {
		delPeer = 8
	}
	if old := w.srv.Get("BGPPeer", key); old != nil && w.pick(delPeer, "delete peer") == 0 {
		_ = w.srv.Delete("BGPPeer", key)
		w.logf("ENV delete bgppeer %s", name)
		return true
	}
	p := &metallbv1beta2.BGPPeer{ObjectMeta: metav1.ObjectMeta{Namespace: metallbNS, Name: name}}
	p.Spec.MyASN = 64512
	p.Spec.ASN = uint32(64600 + i + 10*w.pick(2, "peer asn"))
	p.Spec.Address = fmt.Sprintf("10.9.0.%d", i+1)
	p.Spec.NodeSelectors = w.genNodeSel()
	if w.srv.Get("BGPPeer", key) != nil {
		_ = w.srv.Update(p)
	} else {
		_ = w.srv.Create(p)
	}
	w.logf("ENV set bgppeer %s asn=%d nodesel=%v", name, p.Spec.ASN, p.Spec.NodeSelectors)
	return true
}

// ---- services, played controller, endpoints ----

func (w *sworld) getSvc(key string) *v1.Service {
	o := w.srv.Get("Service", key)
	if o == nil {
		return nil
	}
	return o.(*v1.Service)
}

// pickAddrs plays the MetalLB controller: addresses of one pool, possibly shared with another
// service, single or dual stack.
func (w *sworld) pickAddrs() []string {
	pools := w.poolNames()
	if len(pools) == 0 {
		return nil
	}
	pn := pools[w.pick(len(pools), "status pool")]
	var v4, v6 []netip.Addr
	inUse := map[string]bool{}
	if w.k.avoidKnown {
		// listed finding (first-address election): keep accidental partial overlaps between
		// multi-address services out of the main exploration; sharing is a separate operation
		for _, k := range w.svcKeys() {
			for _, in := range w.getSvc(k).Status.LoadBalancer.Ingress {
				inUse[in.IP] = true
			}
		}
	}
	for _, s := range w.poolDef(pn) {
		r, _ := specalloc.ParseRange(s)
		n := 0
		for a := r.Lo; n < 6; a = a.Next() {
			n++
			if inUse[a.String()] {
				continue
			}
			if a.Is4() {
				v4 = append(v4, a)
			} else {
				v6 = append(v6, a)
			}
		}
	}
	var out []string
	mode := w.pick(4, "status families")
	if len(v4) > 0 && (mode != 1 || len(v6) == 0) {
		out = append(out, v4[w.pick(len(v4), "status v4")].String())
	}
	if len(v6) > 0 && (mode == 1 || mode == 2 || len(v4) == 0) {
		out = append(out, v6[w.pick(len(v6), "status v6")].String())
	}
	if mode == 3 && len(out) == 2 {
		out[0], out[1] = out[1], out[0] // IPv6 first
	}
	return out
}

func setStatus(svc *v1.Service, addrs []string) {
	svc.Status.LoadBalancer.Ingress = nil
	for _, a := range addrs {
		svc.Status.LoadBalancer.Ingress = append(svc.Status.LoadBalancer.Ingress, v1.LoadBalancerIngress{IP: a})
	}
}

func (w *sworld) opCreateService() bool {
	var free []string
	for _, n := range spkSvcNames[:w.k.maxSvc] {
		if w.srv.Get("Service", "default/"+n) == nil {
			free = append(free, n)
		}
	}
	if len(free) == 0 {
		return false
	}
	svc := &v1.Service{ObjectMeta: metav1.ObjectMeta{Namespace: "default", Name: free[0]}}
	svc.Spec.Type = v1.ServiceTypeLoadBalancer
	svc.Spec.ExternalTrafficPolicy = v1.ServiceExternalTrafficPolicyTypeCluster
	if w.pick(3, "etp") == 0 {
		svc.Spec.ExternalTrafficPolicy = v1.ServiceExternalTrafficPolicyTypeLocal
	}
	svc.Spec.Ports = []v1.ServicePort{{Port: 80, Protocol: v1.ProtocolTCP}}
	_ = w.srv.Create(svc)
	if w.pick(5, "leave pending") != 0 {
		setStatus(svc, w.pickAddrs())
		_ = w.srv.UpdateStatus(svc)
	}
	w.logf("ENV create service %s etp=%s status=%v", svc.Name, svc.Spec.ExternalTrafficPolicy, ingressOf(svc))
	if w.pick(4, "no endpoints") != 0 {
		w.setSlices(svc.Name)
	}
	return true
}

func ingressOf(svc *v1.Service) []string {
	var out []string
	for _, i := range svc.Status.LoadBalancer.Ingress {
		out = append(out, i.IP)
	}
	return out
}

func (w *sworld) svcKeys() []string { return w.srv.Keys("Service") }

func (w *sworld) opUpdateService() bool {
	keys := w.svcKeys()
	if len(keys) == 0 {
		return false
	}
	svc := w.getSvc(keys[w.pick(len(keys), "which svc")])
	svc.ResourceVersion = ""
	switch w.pick(7, "svc update") {
	case 6:
		// the controller drops one of two addresses (or the service keeps only its first)
		in := svc.Status.LoadBalancer.Ingress
		if len(in) != 2 || w.sharesAddress(svc) {
			return false
		}
		keep := 0
		if !w.k.avoidKnown {
			keep = w.pick(2, "keep which")
		}
		svc.Status.LoadBalancer.Ingress = []v1.LoadBalancerIngress{in[keep]}
		_ = w.srv.UpdateStatus(svc)
		w.logf("ENV status of %s shrinks to %v", svc.Name, ingressOf(svc))
	case 0:
		setStatus(svc, w.pickAddrs())
		_ = w.srv.UpdateStatus(svc)
		w.logf("ENV status of %s -> %v", svc.Name, ingressOf(svc))
	case 1:
		// share the address of another service (same sharing key in the controller's world)
		others := keys
		o := w.getSvc(others[w.pick(len(others), "share with")])
		if o.Name == svc.Name || len(o.Status.LoadBalancer.Ingress) == 0 {
			return false
		}
		if w.k.avoidKnown && len(o.Status.LoadBalancer.Ingress) > 1 {
			// listed finding: a single-stack service sharing the SECOND address of a dual-stack one;
			// sharing everything or only the first address stays in the main exploration
			svc.Status.LoadBalancer.Ingress = append([]v1.LoadBalancerIngress{}, o.Status.LoadBalancer.Ingress...)
			if w.pick(2, "share first only") == 1 {
				svc.Status.LoadBalancer.Ingress = svc.Status.LoadBalancer.Ingress[:1]
			}
		} else if w.pick(2, "share all") == 0 {
			svc.Status.LoadBalancer.Ingress = append([]v1.LoadBalancerIngress{}, o.Status.LoadBalancer.Ingress...)
		} else {
			in := o.Status.LoadBalancer.Ingress
			svc.Status.LoadBalancer.Ingress = []v1.LoadBalancerIngress{in[w.pick(len(in), "share which")]}
		}
		// sharing under Local requires identical backends: copy policy and endpoints
		svc.Spec.ExternalTrafficPolicy = o.Spec.ExternalTrafficPolicy
		_ = w.srv.Update(svc)
		svc.ResourceVersion = ""
		_ = w.srv.UpdateStatus(svc)
		w.copySlices(o.Name, svc.Name)
		w.logf("ENV %s shares %v with %s", svc.Name, ingressOf(svc), o.Name)
	case 2:
		setStatus(svc, nil)
		_ = w.srv.UpdateStatus(svc)
		w.logf("ENV status of %s cleared", svc.Name)
	case 3:
		if svc.Spec.Type == v1.ServiceTypeLoadBalancer {
			svc.Spec.Type = v1.ServiceTypeClusterIP
		} else {
			svc.Spec.Type = v1.ServiceTypeLoadBalancer
		}
		_ = w.srv.Update(svc)
		w.logf("ENV type of %s -> %s", svc.Name, svc.Spec.Type)
	case 4:
		if w.sharesAddress(svc) {
			return false
		}
		if svc.Spec.ExternalTrafficPolicy == v1.ServiceExternalTrafficPolicyTypeLocal {
			svc.Spec.ExternalTrafficPolicy = v1.ServiceExternalTrafficPolicyTypeCluster
		} else {
			svc.Spec.ExternalTrafficPolicy = v1.ServiceExternalTrafficPolicyTypeLocal
		}
		_ = w.srv.Update(svc)
		w.logf("ENV etp of %s -> %s", svc.Name, svc.Spec.ExternalTrafficPolicy)
	case 5:
		if w.sharesAddress(svc) {
			return false
		}
		w.setSlices(svc.Name)
	}
	return true
}

// sharesAddress: some other service has one of svc's recorded addresses.
func (w *sworld) sharesAddress(svc *v1.Service) bool {
	for _, k := range w.svcKeys() {
		o := w.getSvc(k)
		if o.Name == svc.Name {
			continue
		}
		for _, a := range o.Status.LoadBalancer.Ingress {
			for _, b := range svc.Status.LoadBalancer.Ingress {
				if a.IP == b.IP {
					return true
				}
			}
		}
	}
	return false
}

func (w *sworld) opDeleteService() bool {
	keys := w.svcKeys()
	if len(keys) == 0 {
		return false
	}
	k := keys[w.pick(len(keys), "which svc")]
	name := w.getSvc(k).Name
	_ = w.srv.Delete("Service", k)
	for _, sk := range w.srv.Keys("EndpointSlice") {
		if w.srv.Get("EndpointSlice", sk).GetLabels()[discovery.LabelServiceName] == name {
			_ = w.srv.Delete("EndpointSlice", sk)
		}
	}
	w.logf("ENV delete service %s", name)
	return true
}

func cond(i int) *bool {
	switch i {
	case 0:
		return nil
	case 1:
		t := true
		return &t
	}
	f := false
	return &f
}

// setSlices (re)generates the endpoint slices of a service: 0-2 slices, 1-3 endpoints each, one
// pod address per node (so that "ready endpoint on that node" has one reading), occasionally the
// same pod address in two slices with conflicting conditions, occasionally no node name.
func (w *sworld) setSlices(svcName string) {
	for _, sk := range w.srv.Keys("EndpointSlice") {
		if w.srv.Get("EndpointSlice", sk).GetLabels()[discovery.LabelServiceName] == svcName {
			_ = w.srv.Delete("EndpointSlice", sk)
		}
	}
	ns := w.pick(3, "nslices")
	var desc []string
	for i := 0; i < ns; i++ {
		sl := &discovery.EndpointSlice{ObjectMeta: metav1.ObjectMeta{Namespace: "default", Name: fmt.Sprintf("%s-%d", svcName, i), Labels: map[string]string{discovery.LabelServiceName: svcName}}}
		ne := 1 + w.pick(3, "nendpoints")
		for j := 0; j < ne; j++ {
			ni := w.pick(len(w.nodes)+1, "endpoint node")
			ep := discovery.Endpoint{}
			if ni < len(w.nodes) {
				n := w.nodes[ni]
				ep.NodeName = &n
				ep.Addresses = []string{fmt.Sprintf("10.244.%d.%d", ni+1, 1+w.pick(2, "pod"))}
			} else {
				ep.Addresses = []string{fmt.Sprintf("10.244.99.%d", 1+w.pick(2, "pod"))}
			}
			ep.Conditions.Ready = cond(w.pick(3, "ready"))
			ep.Conditions.Serving = cond(w.pick(3, "serving"))
			sl.Endpoints = append(sl.Endpoints, ep)
			nn := "-"
			if ep.NodeName != nil {
				nn = *ep.NodeName
			}
			desc = append(desc, fmt.Sprintf("%s@%s r=%s s=%s", ep.Addresses[0], nn, bstr(ep.Conditions.Ready), bstr(ep.Conditions.Serving)))
		}
		_ = w.srv.Create(sl)
	}
	w.logf("ENV endpoints of %s: %v", svcName, desc)
}

func bstr(b *bool) string {
	if b == nil {
		return "nil"
	}
	return fmt.Sprint(*b)
}

func (w *sworld) copySlices(from, to string) {
	for _, sk := range w.srv.Keys("EndpointSlice") {
		if w.srv.Get("EndpointSlice", sk).GetLabels()[discovery.LabelServiceName] == to {
			_ = w.srv.Delete("EndpointSlice", sk)
		}
	}
	i := 0
	for _, sk := range w.srv.Keys("EndpointSlice") {
		o := w.srv.Get("EndpointSlice", sk).(*discovery.EndpointSlice)
		if o.Labels[discovery.LabelServiceName] != from {
			continue
		}
		c := o.DeepCopy()
		c.Name = fmt.Sprintf("%s-%d", to, i)
		c.Labels = map[string]string{discovery.LabelServiceName: to}
		c.ResourceVersion, c.UID = "", ""
		_ = w.srv.Create(c)
		i++
	}
}

// ---- nodes ----

func (w *sworld) opNode() bool {
	n := w.nodes[w.pick(len(w.nodes), "which node")]
	o := w.srv.Get("Node", "/"+n)
	if o == nil {
		node := &v1.Node{ObjectMeta: metav1.ObjectMeta{Name: n, Labels: map[string]string{"zone": []string{"a", "b"}[w.pick(2, "zone")], "kubernetes.io/hostname": n}}}
		_ = w.srv.Create(node)
		w.cfgRelevantSinceQ = true
		w.logf("ENV create node %s %v", n, node.Labels)
		return true
	}
	node := o.(*v1.Node)
	node.ResourceVersion = ""
	switch w.pick(5, "node op") {
	case 0:
		if len(node.Status.Conditions) == 0 {
			node.Status.Conditions = []v1.NodeCondition{{Type: v1.NodeNetworkUnavailable, Status: v1.ConditionTrue}}
		} else {
			node.Status.Conditions = nil
		}
		_ = w.srv.UpdateStatus(node)
		w.logf("ENV node %s networkUnavailable=%v", n, len(node.Status.Conditions) > 0)
	case 1:
		if _, ok := node.Labels[v1.LabelNodeExcludeBalancers]; ok {
			delete(node.Labels, v1.LabelNodeExcludeBalancers)
		} else {
			node.Labels[v1.LabelNodeExcludeBalancers] = ""
		}
		_ = w.srv.Update(node)
		w.logf("ENV node %s labels=%v", n, node.Labels)
	case 2:
		if node.Labels["zone"] == "a" {
			node.Labels["zone"] = "b"
		} else {
			node.Labels["zone"] = "a"
		}
		w.cfgRelevantSinceQ = true
		_ = w.srv.Update(node)
		w.logf("ENV node %s labels=%v", n, node.Labels)
	case 3:
		node.Labels["irrelevant"] = fmt.Sprint(w.pick(3, "irrelevant label"))
		_ = w.srv.Update(node)
		w.logf("ENV node %s labels=%v", n, node.Labels)
	case 4:
		if w.spk[n] == nil {
			// a node is only deleted once its speaker is gone
			_ = w.srv.Delete("Node", "/"+n)
			w.cfgRelevantSinceQ = true
			w.logf("ENV delete node %s", n)
		} else {
			return false
		}
	}
	return true
}

func (w *sworld) opPool() bool {
	all := []string{"p1", "p2", "p3"}
	name := all[w.pick(3, "pool name")]
	key := metallbNS + "/" + name
	if w.srv.Get("IPAddressPool", key) == nil {
		w.createPool(name)
		return true
	}
	if w.pick(2, "relabel pool") == 0 {
		p := w.srv.Get("IPAddressPool", key).(*metallbv1beta1.IPAddressPool)
		p.ResourceVersion = ""
		p.Labels = map[string]string{"tier": []string{"x", "y"}[w.pick(2, "pool tier")]}
		_ = w.srv.Update(p)
		w.logf("ENV relabel pool %s %v", name, p.Labels)
		return true
	}
	_ = w.srv.Delete("IPAddressPool", key)
	w.logf("ENV delete pool %s", name)
	// the MetalLB controller clears the status of services whose address left every pool
	st := w.specState()
	for _, k := range w.svcKeys() {
		svc := w.getSvc(k)
		if a := specspk.StatusAddrs(svc); len(a) > 0 && st.PoolOf(a) == "" {
			setStatus(svc, nil)
			svc.ResourceVersion = ""
			_ = w.srv.UpdateStatus(svc)
			w.logf("ENV (controller) status of %s cleared: address left every pool", svc.Name)
		}
	}
	return true
}

func (w *sworld) opSpeaker() bool {
	if w.k.mlDisabled {
		return false // a speaker on every node is MetalLB's assumption when memberlist is off
	}
	n := w.nodes[w.pick(len(w.nodes), "which speaker")]
	if w.spk[n] == nil {
		w.spk[n] = w.newSpeaker(n, false)
		w.stat("fault.speaker-started")
		return true
	}
	if len(w.aliveSet()) <= 1 {
		return false
	}
	w.stat("fault.speaker-stopped")
	w.crashSpeaker(n, false)
	return true
}

func (w *sworld) opUnrelated() bool {
	switch w.pick(3, "unrelated") {
	case 0:
		s := &v1.Secret{ObjectMeta: metav1.ObjectMeta{Namespace: metallbNS, Name: fmt.Sprintf("sec%d", w.pick(2, "secret"))}, Data: map[string][]byte{"x": {byte(w.pick(200, "secret data"))}}}
		if w.srv.Get("Secret", metallbNS+"/"+s.Name) != nil {
			_ = w.srv.Update(s)
		} else {
			_ = w.srv.Create(s)
		}
		w.logf("ENV touch unrelated secret %s", s.Name)
	case 1:
		c := &v1.ConfigMap{ObjectMeta: metav1.ObjectMeta{Namespace: metallbNS, Name: "other-config"}, Data: map[string]string{"k": fmt.Sprint(w.pick(50, "cm data"))}}
		if w.srv.Get("ConfigMap", metallbNS+"/other-config") != nil {
			_ = w.srv.Update(c)
		} else {
			_ = w.srv.Create(c)
		}
		w.logf("ENV touch unrelated configmap")
	case 2:
		ns := w.srv.Get("Namespace", "/default").(*v1.Namespace)
		ns.ResourceVersion = ""
		ns.Annotations = map[string]string{"touched": fmt.Sprint(w.pick(50, "ns ann"))}
		_ = w.srv.Update(ns)
		w.logf("ENV touch namespace annotation")
	}
	return true
}

func (w *sworld) envOp() {
	w.opsLeft--
	w.sched.add("env")
	for tries := 0; tries < 4; tries++ {
		ok := false
		r := w.pick(24, "env op")
		if w.k.bgpFocus && r >= 13 && r < 16 && w.pick(3, "bgp instead of l2") != 0 {
			r = 16 // BGP-heavy run: most layer-2 advertisement operations become BGP ones
		}
		switch {
		case r < 3:
			ok = w.opCreateService()
		case r < 8:
			ok = w.opUpdateService()
		case r < 9:
			ok = w.opDeleteService()
		case r < 13:
			ok = w.opNode()
		case r < 16:
			ok = w.opL2Adv()
			w.cfgRelevantSinceQ = true
		case r < 19:
			ok = w.opBGPAdv()
			w.cfgRelevantSinceQ = true
		case r < 20:
			ok = w.opPeer()
			w.cfgRelevantSinceQ = true
		case r < 21:
			ok = w.opPool()
			w.cfgRelevantSinceQ = true
		case r < 23:
			ok = w.opSpeaker()
		default:
			ok = w.opUnrelated()
		}
		if ok {
			break
		}
	}
	w.applyEager()
	if w.ch.Bool(1, 2, "settle after op?") {
		w.settling = true
	}
}

func sortedStrings(s []string) []string {
	o := append([]string{}, s...)
	sort.Strings(o)
	return o
}
