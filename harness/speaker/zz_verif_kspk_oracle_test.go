//go:build verif

package main

import (
	"context"
	"fmt"
	"os"
	"reflect"
	"sort"
	"strings"
	"testing"

	"github.com/go-kit/log"
	metallbv1beta1 "go.universe.tf/metallb/api/v1beta1"
	metallbv1beta2 "go.universe.tf/metallb/api/v1beta2"
	"go.universe.tf/metallb/internal/config"
	"go.universe.tf/metallb/internal/k8s/controllers"
	"go.universe.tf/metallb/internal/verifsim/runner"
	"go.universe.tf/metallb/internal/verifsim/simk8s"
	"go.universe.tf/metallb/internal/verifsim/simrt"
	"go.universe.tf/metallb/internal/verifsim/specspk"
	v1 "k8s.io/api/core/v1"
	discovery "k8s.io/api/discovery/v1"
)

func (w *sworld) specState() *specspk.State {
	st := &specspk.State{Alive: w.aliveSet(), MemberlistDisabled: w.k.mlDisabled, IgnoreExcludeLB: w.k.ignoreExclude}
	for _, k := range w.srv.Keys("IPAddressPool") {
		st.Pools = append(st.Pools, *w.srv.Get("IPAddressPool", k).(*metallbv1beta1.IPAddressPool))
	}
	for _, k := range w.srv.Keys("L2Advertisement") {
		st.L2Advs = append(st.L2Advs, *w.srv.Get("L2Advertisement", k).(*metallbv1beta1.L2Advertisement))
	}
	for _, k := range w.srv.Keys("BGPAdvertisement") {
		st.BGPAdvs = append(st.BGPAdvs, *w.srv.Get("BGPAdvertisement", k).(*metallbv1beta1.BGPAdvertisement))
	}
	for _, k := range w.srv.Keys("BGPPeer") {
		st.Peers = append(st.Peers, *w.srv.Get("BGPPeer", k).(*metallbv1beta2.BGPPeer))
	}
	for _, k := range w.srv.Keys("Community") {
		st.Communities = append(st.Communities, *w.srv.Get("Community", k).(*metallbv1beta1.Community))
	}
	for _, k := range w.srv.Keys("Node") {
		st.Nodes = append(st.Nodes, *w.srv.Get("Node", k).(*v1.Node))
	}
	for _, k := range w.srv.Keys("Service") {
		st.Services = append(st.Services, *w.srv.Get("Service", k).(*v1.Service))
	}
	for _, k := range w.srv.Keys("EndpointSlice") {
		st.Slices = append(st.Slices, *w.srv.Get("EndpointSlice", k).(*discovery.EndpointSlice))
	}
	return st
}

// apiConfigAccepted: a fresh ConfigReconciler accepts the API server's current resources, i.e. every
// quiescent speaker has this very configuration in force (the shared view the properties assume).
func (w *sworld) apiConfigAccepted() bool {
	cache := simk8s.NewCache(w.srv, spkKinds)
	for _, k := range spkKinds {
		cache.Sync(k, identity)
	}
	called := false
	validate := config.DiscardFRROnly
	if w.k.bgpType != "native" {
		validate = config.DiscardNativeOnly
	}
	var lg log.Logger = log.NewNopLogger()
	if w.env.Verbose {
		lg = log.LoggerFunc(func(kv ...interface{}) error {
			for i := 0; i+1 < len(kv); i += 2 {
				if kv[i] == "error" && fmt.Sprint(kv[i+1]) != "<nil>" {
					w.logf("  (configuration refused: %v)", kv)
					break
				}
			}
			return nil
		})
	}
	r := &controllers.ConfigReconciler{Client: &simk8s.Client{C: cache}, Logger: lg, Namespace: metallbNS, ValidateConfig: validate, ForceReload: func() {}, BGPType: w.k.bgpType,
		Handler: func(l log.Logger, cfg *config.Config) controllers.SyncState { called = true; return controllers.SyncStateSuccess }}
	_, _ = r.Reconcile(context.Background(), reqFor(metallbNS+"/x"))
	return called
}

func (w *sworld) atQuiescence() {
	env := w.env
	w.quiesced++
	st := w.specState()
	running := []string{}
	for _, n := range w.nodes {
		if w.spk[n] != nil {
			running = append(running, n)
		}
	}
	obs := map[string]observation{}
	for _, n := range running {
		obs[n] = w.observe(w.spk[n])
	}
	if w.env.Verbose {
		for _, n := range running {
			w.logf("QUIESCENT [%s] %s", n, obs[n])
		}
	}
	if env.On("C18") {
		w.forkCheck()
		// unrelated events since the previous quiescence must not have reached the handler
		for _, n := range running {
			inc := w.spk[n]
			if inc.cfgCallsAtQ >= 0 && !w.cfgRelevantSinceQ && !inc.restartedSinceQ && inc.cfgCalls != inc.cfgCallsAtQ {
				w.violate("C18", "unrelated-event-reached-the-handler", "", fmt.Sprintf("speaker %s: only events that do not change the configuration happened since the last quiescence, yet the configuration handler ran %d more time(s)", n, inc.cfgCalls-inc.cfgCallsAtQ))
			}
			inc.cfgCallsAtQ = inc.cfgCalls
			inc.restartedSinceQ = false
		}
		w.cfgRelevantSinceQ = false
	}
	if !w.apiConfigAccepted() {
		w.stat("probe.quiescence-with-rejected-config")
		w.prevValid = false
		return
	}
	w.stat("probe.quiescence-checked")
	// ---- layer 2: C04 / C12 ----
	announcer := map[string]string{} // address -> node
	eligible := map[string][]string{}
	if env.On("C04") || env.On("C12") || env.On("C09") {
		type holder struct {
			svc string
			el  []string
		}
		byAddr := map[string][]holder{}
		for i := range st.Services {
			svc := &st.Services[i]
			key := svc.Namespace + "/" + svc.Name
			if _, ok := st.Announceable(svc); !ok {
				continue
			}
			el := st.L2Eligible(svc)
			for _, a := range specspk.StatusAddrs(svc) {
				byAddr[a.String()] = append(byAddr[a.String()], holder{key, el})
			}
		}
		addrs := make([]string, 0, len(byAddr))
		for a := range byAddr {
			addrs = append(addrs, a)
		}
		sort.Strings(addrs)
		for _, a := range addrs {
			hs := byAddr[a]
			w.nontrivial = true
			// sharers with different eligible sets are outside the generator's domain (identical
			// backends), except for first-address effects recorded as a listed finding
			var who []string
			perSvc := map[string][]string{}
			for _, h := range hs {
				for _, n := range running {
					if obs[n].l2Decided[h.svc] {
						perSvc[h.svc] = append(perSvc[h.svc], n)
						who = append(who, n+"("+h.svc+")")
					}
				}
			}
			el := hs[0].el
			sameEl := true
			for _, h := range hs[1:] {
				if !reflect.DeepEqual(h.el, el) {
					sameEl = false
				}
			}
			if !sameEl {
				w.stat("probe.sharers-with-different-eligible-sets")
				continue
			}
			eligible[a] = el
			nodes := map[string]bool{}
			for _, ns := range perSvc {
				for _, n := range ns {
					nodes[n] = true
				}
			}
			sig := ""
			if w.multiAddrSharing(st, a) {
				sig = "C04/election-hashes-first-address-only"
			} else {
				for _, h := range hs {
					for _, n := range running {
						if at, ok := w.spk[n].svcProcessedAt[h.svc]; ok && at < w.spk[n].firstSights {
							sig = "C04/node-first-sight-not-reprocessed"
						}
					}
				}
			}
			if env.On("C04") {
				switch {
				case len(el) == 0 && len(nodes) > 0:
					w.violate("C04", "announced-without-eligible-node", sig, fmt.Sprintf("address %s: no node is eligible but %v decided to announce it", a, who))
				case len(el) > 0 && len(nodes) == 0:
					w.violate("C04", "nobody-announces", sig, fmt.Sprintf("address %s: eligible nodes %v but no speaker decided to announce it (holders %v)", a, el, holderNames(hs)))
				case len(nodes) > 1:
					w.violate("C04", "several-announcers", sig, fmt.Sprintf("address %s: announced by %v (eligible %v)", a, who, el))
				case len(nodes) == 1:
					n := sortedSet(nodes)[0]
					if !contains(el, n) {
						w.violate("C04", "announcer-not-eligible", sig, fmt.Sprintf("address %s: announced by %s which is not eligible (eligible %v)", a, n, el))
					}
					for _, h := range hs {
						if len(perSvc[h.svc]) != 1 {
							w.violate("C04", "sharers-disagree", sig, fmt.Sprintf("address %s: services %v do not all elect %s: %v", a, holderNames(hs), n, who))
						}
					}
				}
			}
			if len(nodes) == 1 {
				announcer[a] = sortedSet(nodes)[0]
			}
		}
		if env.On("C12") && w.prevValid {
			for _, a := range addrs {
				prev, ok := w.prevAnnouncer[a]
				cur, ok2 := announcer[a]
				if ok && ok2 && prev == cur {
					w.stat("probe.address-kept-its-announcer-across-two-quiescences")
					if len(w.prevEligible[a]) != len(eligible[a]) {
						w.stat("probe.announcer-kept-although-the-eligible-set-changed")
					}
				}
				if !ok || !ok2 || prev == cur {
					continue
				}
				w.stat("probe.announcer-moved")
				if !contains(eligible[a], prev) {
					w.stat("probe.announcer-moved-because-the-owner-left")
				}
				pe, ce := w.prevEligible[a], eligible[a]
				if contains(ce, prev) && contains(pe, cur) {
					sig := ""
					if w.multiAddrSharing(st, a) || w.nonFirst(st, a) || w.prevNonFirst[a] {
						sig = "C04/election-hashes-first-address-only"
					}
					w.violate("C12", "moved-between-two-nodes-eligible-before-and-after", sig, fmt.Sprintf("address %s moved from %s to %s although both were eligible before (%v) and after (%v)", a, prev, cur, pe, ce))
				}
			}
		}
		w.prevAnnouncer, w.prevEligible, w.prevValid = announcer, eligible, true
		w.prevNonFirst = map[string]bool{}
		for _, a := range addrs {
			w.prevNonFirst[a] = w.nonFirst(st, a)
		}
	}
	// ---- BGP: C05 / C10 ----
	if env.On("C05") || env.On("C10") || env.On("C09") {
		for _, n := range running {
			o := obs[n]
			wantSvc := map[string]map[string]bool{}
			if len(o.backendProblems) > 0 && (env.On("C05") || env.On("C09")) {
				prop := "C05"
				if !env.On("C05") {
					prop = "C09"
				}
				w.violate(prop, "generated-configuration-problem", "", fmt.Sprintf("node %s (%s back end): %s", n, w.k.backend, strings.Join(o.backendProblems, "; ")))
			}
			if w.k.backend == "frr" || w.k.backend == "frrk8s" {
				w.stat("probe.real-" + w.k.backend + "-backend-configuration-interpreted")
			}
			for pi := range st.Peers {
				p := &st.Peers[pi]
				want, svcs := st.Routes(n, p)
				var wl []string
				for r := range want {
					wl = append(wl, r.String())
				}
				if w.k.backend == "frr" || w.k.backend == "frrk8s" {
					wl = mergeByPrefix(want)
				}
				sort.Strings(wl)
				got, has := o.bgpRoutes[p.Name]
				selects := st.PeerSelectsNode(p, n)
				if len(wl) > 0 {
					w.nontrivial = true
					w.stat("probe.bgp-routes-expected-on-a-session")
					if len(wl) >= 2 {
						w.stat("probe.bgp-several-routes-on-a-session")
					}
				} else if selects {
					w.stat("probe.bgp-session-with-nothing-to-offer")
				}
				if !selects {
					w.stat("probe.bgp-peer-not-selecting-the-node")
				}
				for s := range svcs {
					if wantSvc[s] == nil {
						wantSvc[s] = map[string]bool{}
					}
					wantSvc[s][p.Name] = true
				}
				if env.On("C10") && has && selects && (len(got) == 0) != (len(wl) == 0) {
					// eligibility as the peer sees it: the node offers the peer something iff some
					// service is eligible on it for an advertisement that names the peer
					sig := ""
					for i := range st.Services {
						key := st.Services[i].Namespace + "/" + st.Services[i].Name
						if at, ok := w.spk[n].svcProcessedAt[key]; ok && at < w.spk[n].firstSights {
							sig = "C04/node-first-sight-not-reprocessed"
						}
					}
					w.violate("C10", "bgp-eligibility-on-the-session", sig, fmt.Sprintf("node %s peer %s: offered %v although the eligible services produce %v", n, p.Name, got, wl))
				}
				if env.On("C05") || env.On("C09") {
					prop := "C05"
					if !env.On("C05") {
						prop = "C09"
					}
					if has != selects {
						w.violate(prop, "session-set", "", fmt.Sprintf("node %s: session to peer %s exists=%v but the peer's node selectors select the node=%v", n, p.Name, has, selects))
					} else if has && !reflect.DeepEqual(got, wl) && !(len(got) == 0 && len(wl) == 0) {
						w.violate(prop, "routes", "", fmt.Sprintf("node %s peer %s: offered %v, expected %v", n, p.Name, got, wl))
					}
				}
			}
			if env.On("C10") {
				for i := range st.Services {
					svc := &st.Services[i]
					key := svc.Namespace + "/" + svc.Name
					want := st.BGPEligible(n, svc)
					got := w.spk[n].ctrl.announced[config.BGP][key]
					if want {
						w.stat("probe.bgp-eligible-node-service-pair")
						if svc.Spec.ExternalTrafficPolicy == v1.ServiceExternalTrafficPolicyLocal {
							w.stat("probe.bgp-eligible-under-local-policy")
						}
					} else if len(specspk.StatusAddrs(svc)) > 0 {
						w.stat("probe.bgp-ineligible-node-service-pair-with-address")
					}
					if want != got {
						sig := ""
						if at, ok := w.spk[n].svcProcessedAt[key]; ok && at < w.spk[n].firstSights {
							sig = "C04/node-first-sight-not-reprocessed"
						}
						w.violate("C10", "bgp-eligibility", sig, fmt.Sprintf("node %s announces %s over BGP=%v, eligible=%v (policy %s)", n, key, got, want, svc.Spec.ExternalTrafficPolicy))
					}
				}
			}
			if env.On("C05") {
				for _, key := range w.srv.Keys("Service") {
					var wl []string
					for p := range wantSvc[key] {
						wl = append(wl, p)
					}
					sort.Strings(wl)
					if len(wl) > 0 {
						w.stat("probe.service-reported-as-advertised-to-peers")
					}
					if !reflect.DeepEqual(wl, o.bgpSvc[key]) && !(len(wl) == 0 && len(o.bgpSvc[key]) == 0) {
						w.violate("C05", "peers-for-service", "", fmt.Sprintf("node %s reports %s as advertised to %v, expected %v", n, key, o.bgpSvc[key], wl))
					}
				}
			}
		}
	}
	// ---- C09: history independence: equal to a fresh speaker on the final state ----
	if env.On("C09") {
		for _, n := range running {
			fresh := w.runFresh(n)
			fo := w.observe(fresh)
			o := obs[n]
			w.stat("probe.fresh-speaker-compared")
			if !reflect.DeepEqual(o.l2Decided, fo.l2Decided) && !(len(o.l2Decided) == 0 && len(fo.l2Decided) == 0) {
				w.violate("C09", "l2-decision-differs-from-fresh-speaker", w.c09sig(st), fmt.Sprintf("node %s decides to announce %v over layer 2, a fresh speaker on the same state %v", n, sortedSet(o.l2Decided), sortedSet(fo.l2Decided)))
			} else if !mapsEq(o.l2Held, fo.l2Held) {
				w.violate("C09", "l2-announcer-content-differs-from-fresh-speaker", w.c09sig(st), fmt.Sprintf("node %s answers for %v, a fresh speaker on the same state for %v", n, o.l2Held, fo.l2Held))
			} else if !mapsEq(o.bgpRoutes, fo.bgpRoutes) {
				w.violate("C09", "bgp-routes-differ-from-fresh-speaker", "", fmt.Sprintf("node %s offers %v, a fresh speaker on the same state %v", n, o.bgpRoutes, fo.bgpRoutes))
			}
		}
	}
}

func (w *sworld) c09sig(st *specspk.State) string { return "" }

// mergeByPrefix: in FRR semantics the communities several advertisements request for one prefix
// towards one peer are one attribute set.
func mergeByPrefix(want map[specspk.Route]bool) []string {
	type acc struct {
		lp    uint32
		comms map[string]bool
	}
	m := map[string]*acc{}
	for r := range want {
		a := m[r.Prefix]
		if a == nil {
			a = &acc{lp: r.LocalPref, comms: map[string]bool{}}
			m[r.Prefix] = a
		}
		if r.Communities != "" {
			for _, c := range strings.Split(r.Communities, ",") {
				a.comms[c] = true
			}
		}
	}
	var out []string
	for p, a := range m {
		var cs []string
		for c := range a.comms {
			cs = append(cs, c)
		}
		sort.Strings(cs)
		out = append(out, specspk.Route{Prefix: p, LocalPref: a.lp, Communities: strings.Join(cs, ",")}.String())
	}
	return out
}

// forkCheck is C18: k fresh ConfigReconcilers over the same API snapshot, each with its own List
// permutations and map iteration orders, must either all hand the same configuration
// (reflect.DeepEqual, the comparison MetalLB itself uses) to the handler or all reject; and a
// second computation from the same snapshot must look unchanged to each of them.
func (w *sworld) forkCheck() {
	validate := config.DiscardFRROnly
	if w.k.bgpType != "native" {
		validate = config.DiscardNativeOnly
	}
	saved := simrt.MapOrder
	simrt.MapOrder = func(n int) []int { return w.ch.Perm(n, "fork map order") }
	defer func() { simrt.MapOrder = saved }()
	var first *config.Config
	firstCalled := false
	for i := 0; i < 5; i++ {
		cache := simk8s.NewCache(w.srv, spkKinds)
		for _, k := range spkKinds {
			cache.Sync(k, identity)
		}
		var got *config.Config
		calls := 0
		cl := &simk8s.Client{C: cache}
		if i > 0 {
			cl.ListPerm = w.perm("fork list order")
		}
		r := &controllers.ConfigReconciler{Client: cl, Logger: log.NewNopLogger(), Namespace: metallbNS, ValidateConfig: validate, ForceReload: func() {}, BGPType: w.k.bgpType,
			Handler: func(l log.Logger, cfg *config.Config) controllers.SyncState {
				got = cfg
				calls++
				return controllers.SyncStateSuccess
			}}
		_, _ = r.Reconcile(context.Background(), reqFor(metallbNS+"/x"))
		w.stat("probe.fork-reconcile")
		if i == 0 {
			first, firstCalled = got, calls == 1
		} else {
			if (calls == 1) != firstCalled {
				w.violate("C18", "acceptance-depends-on-order", "", fmt.Sprintf("the same snapshot is accepted=%v under one listing/map order and accepted=%v under another", firstCalled, calls == 1))
				return
			}
			if firstCalled && !reflect.DeepEqual(first, got) {
				w.violate("C18", "configuration-depends-on-order", "", fmt.Sprintf("two computations of the same snapshot under different listing/map orders are not equal: %s", cfgDiff(first, got)))
				return
			}
		}
		if calls == 1 {
			w.nontrivial = true
			w.stat("probe.fork-accepted-configuration-compared")
			cl.ListPerm = w.perm("fork list order")
			_, _ = r.Reconcile(context.Background(), reqFor(metallbNS+"/y"))
			if calls != 1 {
				w.violate("C18", "recomputation-looks-like-a-change", "", fmt.Sprintf("reconciling the same snapshot a second time invoked the configuration handler again: %s", cfgDiff(first, got)))
				return
			}
		}
	}
}

func cfgDiff(a, b *config.Config) string {
	if a == nil || b == nil {
		return "one is nil"
	}
	var out []string
	if !reflect.DeepEqual(a.Peers, b.Peers) {
		out = append(out, "peers differ")
	}
	if !reflect.DeepEqual(a.BFDProfiles, b.BFDProfiles) {
		out = append(out, "bfd profiles differ")
	}
	if a.Pools != nil && b.Pools != nil {
		if !reflect.DeepEqual(a.Pools.ByNamespace, b.Pools.ByNamespace) {
			out = append(out, fmt.Sprintf("ByNamespace %v vs %v", a.Pools.ByNamespace, b.Pools.ByNamespace))
		}
		if !reflect.DeepEqual(a.Pools.ByServiceSelector, b.Pools.ByServiceSelector) {
			out = append(out, fmt.Sprintf("ByServiceSelector %v vs %v", a.Pools.ByServiceSelector, b.Pools.ByServiceSelector))
		}
		for n, p := range a.Pools.ByName {
			q := b.Pools.ByName[n]
			if q == nil {
				out = append(out, "pool "+n+" missing")
				continue
			}
			if !reflect.DeepEqual(p.L2Advertisements, q.L2Advertisements) {
				out = append(out, "pool "+n+": L2 advertisements differ (order or content)")
			}
			if !reflect.DeepEqual(p.BGPAdvertisements, q.BGPAdvertisements) {
				out = append(out, "pool "+n+": BGP advertisements differ (order or content)")
			}
			if !reflect.DeepEqual(p.CIDR, q.CIDR) {
				out = append(out, "pool "+n+": CIDRs differ")
			}
		}
	}
	return strings.Join(out, "; ")
}

func mapsEq(a, b map[string][]string) bool {
	for k, v := range a {
		if len(v) > 0 && !reflect.DeepEqual(v, b[k]) {
			return false
		}
	}
	for k, v := range b {
		if len(v) > 0 && !reflect.DeepEqual(v, a[k]) {
			return false
		}
	}
	return true
}

type holderT interface{}

func holderNames(hs any) []string {
	v := reflect.ValueOf(hs)
	var out []string
	for i := 0; i < v.Len(); i++ {
		out = append(out, v.Index(i).Field(0).String())
	}
	return out
}

func contains(l []string, x string) bool {
	for _, s := range l {
		if s == x {
			return true
		}
	}
	return false
}

// multiAddrSharing: the address is held by a multi-address service as a non-first address while
// another holder has it first (or vice versa): the shape of the listed first-address finding.
func (w *sworld) multiAddrSharing(st *specspk.State, addr string) bool {
	firsts := map[string]bool{}
	n := 0
	for i := range st.Services {
		a := specspk.StatusAddrs(&st.Services[i])
		for _, x := range a {
			if x.String() == addr {
				firsts[a[0].String()] = true
				n++
			}
		}
	}
	return n > 1 && len(firsts) > 1
}

// nonFirst: some service holds addr as a non-first address.
func (w *sworld) nonFirst(st *specspk.State, addr string) bool {
	for i := range st.Services {
		a := specspk.StatusAddrs(&st.Services[i])
		for j, x := range a {
			if j > 0 && x.String() == addr {
				return true
			}
		}
	}
	return false
}

func kspkRun(env *runner.Env) *runner.Result {
	w := &sworld{env: env, ch: env.Ch, srv: simk8s.NewServer(), stats: map[string]int64{}, spk: map[string]*spkInc{}, suspected: map[string]string{}}
	vm := parseVariant(env.Variant)
	thorough := env.Tier == "thorough"
	k := &w.k
	k.nNodes = 2 + w.pick(3, "knob nodes")
	k.maxSvc = 1 + w.pick(4, "knob maxSvc")
	k.nOps = 4 + w.pick(26, "knob nOps")
	if thorough {
		k.nNodes = 2 + w.pick(5, "knob nodes+")
		k.maxSvc = 1 + w.pick(6, "knob maxSvc+")
		k.nOps = 6 + w.pick(70, "knob nOps+")
	}
	k.zeroEvent = w.ch.Bool(1, 4, "knob zeroEvent")
	if k.zeroEvent {
		k.nOps = 0
	}
	k.mapOrder = w.ch.Bool(2, 3, "knob mapOrder")
	k.listPerm = w.ch.Bool(2, 3, "knob listPerm")
	k.lag = w.ch.Bool(2, 3, "knob lag")
	k.interleave = w.ch.Bool(1, 2, "knob interleave")
	k.mlDisabled = w.ch.Bool(1, 4, "knob memberlist disabled")
	k.ignoreExclude = w.ch.Bool(1, 5, "knob ignoreExclude")
	k.bgpType = []string{"frr", "native"}[w.pick(2, "knob bgpType")]
	k.bgpFocus = w.ch.Bool(2, 5, "knob bgpFocus")
	k.backend = "rec"
	if k.bgpType != "native" {
		k.backend = []string{"rec", "frr", "frrk8s"}[w.pick(3, "knob backend")]
	}
	k.nativeV6 = w.ch.Bool(1, 5, "knob nativeV6")
	faults := vm["faults"] != "off" && w.ch.Bool(1, 2, "knob faults")
	if faults {
		k.fCrash = w.ch.Bool(1, 2, "knob fCrash")
		k.fSuspect = w.ch.Bool(1, 2, "knob fSuspect")
		k.fResync = w.ch.Bool(1, 2, "knob fResync")
		k.fListErr = w.ch.Bool(1, 3, "knob fListErr")
		k.fSetFail = w.ch.Bool(1, 3, "knob fSetFail")
		k.crashBudget = 1 + w.pick(3, "knob crashBudget")
	}
	k.avoidKnown = vm["known"] != "only"
	w.faultsOn = faults
	w.opsLeft = k.nOps
	if k.mapOrder {
		simrt.MapOrder = func(n int) []int {
			if n <= 4 {
				return w.ch.Perm(n, "map order")
			}
			r := w.ch.Intn(n, "map order")
			out := make([]int, n)
			for i := range out {
				out[i] = (r + i) % n
			}
			return out
		}
	} else {
		simrt.MapOrder = nil
	}
	defer func() { simrt.MapOrder = nil }()
	for i := 0; i < k.nNodes; i++ {
		w.nodes = append(w.nodes, fmt.Sprintf("n%d", i+1))
	}
	w.logf("knobs %+v", *k)
	w.setupCluster()
	for _, n := range w.nodes {
		// with memberlist disabled MetalLB assumes a speaker on every node
		if k.mlDisabled || w.pick(8, "speaker initially down") != 0 || len(w.aliveSet()) == 0 {
			w.spk[n] = w.newSpeaker(n, false)
		}
	}
	maxSteps := 1500 + 200*k.nOps
	for i := 0; i < maxSteps && w.viol == nil && !w.halt; i++ {
		if w.quiescent() {
			w.atQuiescence()
			if w.viol != nil || w.halt {
				break
			}
			w.settling = false
			if w.opsLeft == 0 {
				break
			}
		}
		if !w.runProtected() {
			if w.opsLeft == 0 {
				break
			}
			w.settling = false
		}
	}
	if w.viol == nil && !w.halt {
		w.faultsOn = false
		w.opsLeft = 0
		if !w.settle(20000) {
			if env.On("C09") {
				w.violate("C09", "no-quiescence", "", "speakers did not reach quiescence within 20000 scheduler steps after the last event: "+w.describeQueues())
			} else {
				w.stat("run-did-not-quiesce")
			}
		} else {
			w.atQuiescence()
		}
	}
	w.stats["incarnations"] = int64(w.nInc)
	w.stats["quiescences"] = int64(w.quiesced)
	w.stats["map-ranges"] = int64(simrt.MapRanges)
	simrt.MapRanges = 0
	return &runner.Result{Violation: w.viol, Known: w.known, Stats: w.stats, SimTime: w.now, Steps: w.steps, SchedHash: w.sched.h, NonTrivial: w.nontrivial, Log: w.log}
}

func (w *sworld) describeQueues() string {
	var out []string
	for _, n := range w.nodes {
		inc := w.spk[n]
		if inc == nil {
			continue
		}
		for _, wk := range inc.workers {
			if !wk.q.Idle() {
				out = append(out, fmt.Sprintf("%s/%s queued=%v", n, wk.name, wk.q.Items()))
			}
		}
		if l := inc.cache.Lagging(); len(l) > 0 {
			out = append(out, fmt.Sprintf("%s lagging=%v", n, l))
		}
	}
	return strings.Join(out, "; ")
}

func parseVariant(v string) map[string]string {
	m := map[string]string{}
	for _, kv := range strings.Split(v, ";") {
		if i := strings.IndexByte(kv, '='); i > 0 {
			m[kv[:i]] = kv[i+1:]
		} else if kv != "" {
			m[kv] = "1"
		}
	}
	return m
}

func TestVerifKspk(t *testing.T) {
	if os.Getenv("VERIF_MODE") == "" {
		t.Skip("verification harness: driven by /verif/bin/verifcheck")
	}
	if code := runner.Main("kspk", kspkRun); code != 0 {
		t.Fatalf("runner exit %d", code)
	}
}
