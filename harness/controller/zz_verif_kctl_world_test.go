//go:build verif

package main

// K-ctl: the controller process under deterministic simulation (DESIGN.md §3.1).
// Real: controller.SetBalancer/SetPools/convergeBalancer/allocateIPs, internal/allocator,
// k8salloc, ipfamily, internal/config (config.For), ServiceReconciler (incl. reprocessAll and the
// initial-load gate), PoolReconciler, PoolStatusReconciler, k8s.Listener.
// Simulated: API server, informer cache, work queues, rate limiter (simk8s), event recorder.

import (
	"context"
	"runtime/debug"
	"errors"
	"fmt"
	"hash/fnv"
	"net/netip"
	"sort"
	"strings"
	"time"

	"github.com/go-kit/log"
	metallbv1beta1 "go.universe.tf/metallb/api/v1beta1"
	"go.universe.tf/metallb/internal/allocator"
	"go.universe.tf/metallb/internal/config"
	"go.universe.tf/metallb/internal/k8s"
	"go.universe.tf/metallb/internal/k8s/controllers"
	"go.universe.tf/metallb/internal/verifsim/choice"
	"go.universe.tf/metallb/internal/verifsim/runner"
	"go.universe.tf/metallb/internal/verifsim/simk8s"
	"go.universe.tf/metallb/internal/verifsim/simrt"
	"go.universe.tf/metallb/internal/verifsim/specalloc"
	v1 "k8s.io/api/core/v1"
	discovery "k8s.io/api/discovery/v1"
	"k8s.io/apimachinery/pkg/types"
	ctrl "sigs.k8s.io/controller-runtime"
	"sigs.k8s.io/controller-runtime/pkg/client"
	"sigs.k8s.io/controller-runtime/pkg/event"
)

const metallbNS = "metallb-system"

var reloadKey = "metallbreload/reload"

type crashSentinel struct{ where string }

type knobs struct {
	maxSvc, maxPools, nOps int
	mapOrder, listPerm     bool
	lag                    bool // cache lags behind the API server
	interleave             bool
	fWriteFail             bool // status write fails before applying
	fWriteLost             bool // status write applies, error returned
	fListErr               bool
	fCrash                 bool
	fResync                bool
	crashBudget            int
	lbClass                string
	huge                   bool // allow the huge IPv6 prefix
	avoidKnown             bool // keep generators away from listed known-finding shapes
	crashAtOpp             int  // crash-point enumeration: crash at the n-th crash opportunity (every scheduler step boundary, before and after every status write), -1 = none
	crashAtWrite           int  // forced crash at n-th status write: 2n = before, 2n+1 = after, -1 none
}

type worker struct {
	name string
	q    *simk8s.Queue
	rec  interface {
		Reconcile(context.Context, ctrl.Request) (ctrl.Result, error)
	}
	busy bool
}

type incarnation struct {
	id        int
	ctrl      *controller
	listener  *k8s.Listener
	cache     *simk8s.Cache
	cl        *simk8s.Client
	svcRec    *controllers.ServiceReconciler
	poolRec   *controllers.PoolReconciler
	statusRec *controllers.PoolStatusReconciler
	workers   []*worker // service, pool, poolstatus
	reload    chan event.GenericEvent
	started   bool
	lastSeen  map[string]*v1.Service // service objects as this incarnation's handler last saw them
	// raw objects the pool reconciler listed last, and the oracle configuration in force
	listedPools []metallbv1beta1.IPAddressPool
	listedNS    []v1.Namespace
	cfgInForce  *specalloc.Config
	cfgRaw      string
	depth       int
	// the service handler invocation in progress (for write-time oracles)
	curName string
	curSeen *v1.Service
	curPre  specalloc.Holdings
	lapsed        map[string]bool
	droppedDelete map[string]bool
	poolHandlerCalls int
	justifiedRelease map[string][]netip.Addr // service -> addresses this incarnation released from it in memory for a reason its own view justifies
	staleDropped     map[string][]netip.Addr // service -> recorded addresses a handler call dropped because it was shown a stale object
	gateOpened    bool // the initial-load gate of this incarnation has been open at some point
}

type world struct {
	env   *runner.Env
	ch    *choice.Chooser
	k     knobs
	srv   *simk8s.Server
	now   time.Duration
	inc   *incarnation
	nInc  int
	stats map[string]int64
	log   []string
	sched fnvHash
	viol  *runner.Violation
	known []runner.Violation
	halt  bool // a listed finding manifested: stop judging this run

	noInterleave bool // an oracle is driving the reconcilers itself: nothing else may happen meanwhile
	opp         int // crash opportunities passed so far
	opsLeft     int
	settling    bool
	faultsOn    bool
	steps       int
	writes      int // status writes attempted (all incarnations)
	writesBySvc map[string]int
	appliedBySvc map[string]int // status writes the API server accepted
	stateHashes []uint64
	nontrivial  bool
	// C06 bookkeeping
	crashStatuses map[string][]netip.Addr
	crashed       bool
	opsSinceCrash int
	quiesced      int
	// history needed to attribute violations to listed findings
	opSeq          int
	changedAt      map[string]int // service key -> sequence number of its last create/update
	portDrops      []excuse       // a sharing service dropped ports while holding addresses
	failedReleases []excuse       // a status write that clears addresses failed
}

type excuse struct {
	at    int
	addrs []netip.Addr
}

type fnvHash struct{ h uint64 }

func (f *fnvHash) add(s string) {
	h := fnv.New64a()
	var b [8]byte
	for i := 0; i < 8; i++ {
		b[i] = byte(f.h >> (8 * i))
	}
	h.Write(b[:])
	h.Write([]byte(s))
	f.h = h.Sum64()
}

func (w *world) logf(format string, a ...any) {
	if w.env.Verbose {
		w.log = append(w.log, fmt.Sprintf("[t=%v] ", w.now)+fmt.Sprintf(format, a...))
	}
}

func (w *world) stat(name string) { w.stats[name]++ }

func (w *world) violate(prop, inv, sig, msg string) {
	v := runner.Violation{Property: prop, Invariant: inv, Signature: sig, Message: msg}
	if sig != "" && w.env.Known[sig] {
		for _, k := range w.known {
			if k.Signature == sig {
				return
			}
		}
		w.known = append(w.known, v)
		w.logf("KNOWN FINDING %s: %s (run ends here: what follows a manifested defect is not judged)", v.Class(), msg)
		w.halt = true
		return
	}
	if w.viol == nil {
		w.viol = &v
		w.logf("VIOLATION %s: %s", v.Class(), msg)
	}
}

func (w *world) perm(label string) func(n int) []int {
	return func(n int) []int { return w.ch.Perm(n, label) }
}

func identity(n int) []int {
	p := make([]int, n)
	for i := range p {
		p[i] = i
	}
	return p
}

// ---- the controller's `service` interface over the simulated API server ----

type simSvcClient struct{ w *world }

func (c simSvcClient) Infof(svc *v1.Service, desc, msg string, args ...interface{})  {}
func (c simSvcClient) Errorf(svc *v1.Service, desc, msg string, args ...interface{}) {}

func (c simSvcClient) UpdateStatus(svc *v1.Service) error {
	w := c.w
	key := svc.Namespace + "/" + svc.Name
	n := w.writes
	var before []netip.Addr
	if cur := w.getSvc(key); cur != nil {
		before = statusAddrs(cur)
	}
	w.writes++
	w.writesBySvc[key]++
	w.sched.add("write:" + key)
	if w.k.crashAtWrite == 2*n || w.oppHit() {
		w.stat("fault.crash-before-status-write")
		panic(crashSentinel{"before status write of " + key})
	}
	if w.faultsOn {
		if w.k.fCrash && w.k.crashBudget > 0 && w.ch.Bool(1, 24, "crash before write?") {
			w.k.crashBudget--
			w.stat("fault.crash-before-status-write")
			panic(crashSentinel{"before status write of " + key})
		}
		if w.k.fWriteFail && w.ch.Bool(1, 6, "status write fails?") {
			w.stat("fault.status-write-failed")
			w.logf("  FAULT status write of %s fails (not applied)", key)
			w.noteFailedRelease(key, before, svc)
			return errors.New("simulated: status write failed")
		}
	}
	// the write-time oracles judge writes the API server accepts: a write rejected for a stale
	// resourceVersion changes nothing (they only read the statuses of the OTHER services and what
	// the handler was shown, so evaluating them once the outcome is known is equivalent)
	if cur := w.getSvc(key); cur != nil && (svc.ResourceVersion == "" || cur.ResourceVersion == svc.ResourceVersion) {
		w.checkStealOnWrite(key, svc)
		w.checkStatusStability(key, svc)
	} else {
		w.stat("probe.status-write-with-stale-resource-version")
	}
	err := w.srv.UpdateStatus(svc)
	if err != nil {
		w.stat("fault.status-write-conflict-or-notfound")
		w.logf("  status write of %s rejected: %v", key, err)
		w.noteFailedRelease(key, before, svc)
		return err
	}
	if w.appliedBySvc != nil {
		w.appliedBySvc[key]++
	}
	w.logf("  status write %s -> %v ann=%q", key, ingress(svc), svc.Annotations[specalloc.AnnAllocatedFrom])
	w.applyEager()
	if w.k.crashAtWrite == 2*n+1 || w.oppHit() {
		w.stat("fault.crash-after-status-write")
		panic(crashSentinel{"after status write of " + key})
	}
	if w.faultsOn {
		if w.k.fCrash && w.k.crashBudget > 0 && w.ch.Bool(1, 24, "crash after write?") {
			w.k.crashBudget--
			w.stat("fault.crash-after-status-write")
			panic(crashSentinel{"after status write of " + key})
		}
		if w.k.fWriteLost && w.ch.Bool(1, 8, "status write response lost?") {
			w.stat("fault.status-write-response-lost")
			w.logf("  FAULT status write of %s applied but the response is lost", key)
			w.noteFailedRelease(key, before, svc)
			return errors.New("simulated: response lost")
		}
	}
	return nil
}

// noteFailedRelease records a failed write that would have cleared recorded addresses.
func (w *world) noteFailedRelease(key string, before []netip.Addr, written *v1.Service) {
	// addresses the handler released in memory (or was about to clear in the status) whose
	// release the failed write hides from the retry
	var released []netip.Addr
	now := map[netip.Addr]bool{}
	for _, s := range w.inc.ctrl.ips.VerifHoldings()[key].IPs {
		a, _ := netip.ParseAddr(s)
		now[a.Unmap()] = true
	}
	for _, a := range append(append([]netip.Addr{}, before...), w.inc.curPre[key].IPs...) {
		if !now[a] {
			released = append(released, a)
		}
	}
	if len(released) > 0 {
		w.opSeq++
		w.failedReleases = append(w.failedReleases, excuse{w.opSeq, released})
		w.stat("probe.releasing-write-failed")
	}
}

func ingress(svc *v1.Service) []string {
	var out []string
	for _, i := range svc.Status.LoadBalancer.Ingress {
		out = append(out, i.IP)
	}
	return out
}

func statusAddrs(svc *v1.Service) []netip.Addr {
	var out []netip.Addr
	for _, i := range svc.Status.LoadBalancer.Ingress {
		if a, err := netip.ParseAddr(i.IP); err == nil {
			out = append(out, a.Unmap())
		}
	}
	return out
}

// ---- incarnation ----

type recordingClient struct {
	*simk8s.Client
	inc *incarnation
}

func (r recordingClient) List(ctx context.Context, list client.ObjectList, opts ...client.ListOption) error {
	err := r.Client.List(ctx, list, opts...)
	if err == nil {
		switch l := list.(type) {
		case *metallbv1beta1.IPAddressPoolList:
			r.inc.listedPools = append([]metallbv1beta1.IPAddressPool(nil), l.Items...)
		case *v1.NamespaceList:
			r.inc.listedNS = append([]v1.Namespace(nil), l.Items...)
		}
	}
	return err
}

func (w *world) newIncarnation() {
	w.nInc++
	inc := &incarnation{id: w.nInc, lastSeen: map[string]*v1.Service{}, lapsed: map[string]bool{}, droppedDelete: map[string]bool{}}
	w.inc = inc
	kinds := []simk8s.Kind{"Service", "IPAddressPool", "Namespace", "Community"}
	inc.cache = simk8s.NewCache(w.srv, kinds)
	inc.cl = &simk8s.Client{C: inc.cache}
	if w.k.listPerm {
		inc.cl.ListPerm = w.perm("list order")
	}
	svcQ, poolQ, statusQ := simk8s.NewQueue("service"), simk8s.NewQueue("pool"), simk8s.NewQueue("poolstatus")
	inc.reload = make(chan event.GenericEvent, 1024)
	inc.ctrl = &controller{
		client: simSvcClient{w},
		ips: allocator.New(func(name string) {
			statusQ.Add(metallbNS + "/" + name)
		}),
	}
	inc.listener = &k8s.Listener{ServiceChanged: inc.ctrl.SetBalancer, PoolChanged: inc.ctrl.SetPools}
	logger := log.NewNopLogger()
	inc.svcRec = &controllers.ServiceReconciler{
		Client: inc.cl, Logger: logger, Endpoints: false, Reload: inc.reload, LoadBalancerClass: w.k.lbClass,
		Handler: func(l log.Logger, name string, svc *v1.Service, eps []discovery.EndpointSlice) controllers.SyncState {
			return w.serviceHandler(inc, l, name, svc, eps)
		},
	}
	inc.poolRec = &controllers.PoolReconciler{
		Client: recordingClient{inc.cl, inc}, Logger: logger, Namespace: metallbNS, ValidateConfig: config.ValidationFor("native"),
		Handler: func(l log.Logger, pools *config.Pools) controllers.SyncState {
			return w.poolHandler(inc, l, pools)
		},
		ForceReload: func() { svcQ.Add(reloadKey) },
	}
	inc.statusRec = &controllers.PoolStatusReconciler{Client: inc.cl, Logger: logger, CountersFetcher: inc.ctrl.ips.CountersForPool}
	wsvc := &worker{name: "service", q: svcQ, rec: inc.svcRec}
	wpool := &worker{name: "pool", q: poolQ, rec: inc.poolRec}
	wstat := &worker{name: "poolstatus", q: statusQ, rec: inc.statusRec}
	inc.workers = []*worker{wsvc, wpool, wstat}
	inc.cl.Hook = func(op string, k simk8s.Kind) error {
		w.interleave(inc)
		if w.faultsOn && w.k.fListErr && op == "list" && w.ch.Bool(1, 40, "list fails?") {
			w.stat("fault.list-error")
			w.logf("  FAULT list of %s fails", k)
			return errors.New("simulated: list failed")
		}
		return nil
	}
	inc.cache.OnEvent = func(ev simk8s.Event) {
		switch ev.Kind {
		case "Service":
			svcQ.Add(ev.Key)
		case "IPAddressPool":
			if ev.Type == simk8s.Modified {
				ue := event.UpdateEvent{ObjectOld: ev.Old, ObjectNew: ev.New}
				if controllers.VerifPoolReconcilerUpdateFilter(ue) {
					poolQ.Add(ev.Key)
				} else {
					w.stat("probe.pool-update-filtered")
				}
				if controllers.VerifPoolStatusReconcilerUpdateFilter(ue) {
					statusQ.Add(ev.Key)
				}
			} else {
				poolQ.Add(ev.Key)
				statusQ.Add(ev.Key)
			}
		case "Namespace", "Community":
			if ev.Type == simk8s.Modified {
				if controllers.VerifPoolReconcilerUpdateFilter(event.UpdateEvent{ObjectOld: ev.Old, ObjectNew: ev.New}) {
					poolQ.Add(ev.Key)
				}
			} else {
				poolQ.Add(ev.Key)
			}
		}
	}
	w.logf("START controller incarnation %d", inc.id)
	w.sched.add("start")
}

// applyEager keeps the cache in lock-step with the API server when lag is disabled.
func (w *world) applyEager() {
	if w.k.lag || w.inc == nil {
		return
	}
	for {
		l := w.inc.cache.Lagging()
		if len(l) == 0 {
			return
		}
		w.inc.cache.ApplyNext(l[0])
	}
}

func (w *world) drainReload(inc *incarnation) {
	for {
		select {
		case <-inc.reload:
			inc.workers[0].q.Add(reloadKey)
		default:
			return
		}
	}
}

func reqFor(key string) ctrl.Request {
	i := strings.IndexByte(key, '/')
	return ctrl.Request{NamespacedName: types.NamespacedName{Namespace: key[:i], Name: key[i+1:]}}
}

func (w *world) workerStep(inc *incarnation, wk *worker) {
	key := wk.q.Get()
	wk.busy = true
	w.steps++
	w.sched.add("step:" + wk.name + ":" + key)
	w.logf("%s worker: reconcile %s", wk.name, key)
	if inc.svcRec.VerifInitialLoadPerformed() {
		inc.gateOpened = true
	}
	if wk.name == "service" && key != reloadKey && !inc.svcRec.VerifInitialLoadPerformed() {
		w.stat("probe.event-dropped-before-initial-load")
		if inc.cache.Objs["Service"][key] == nil && len(inc.ctrl.ips.VerifHoldings()[key].IPs) > 0 && !inc.gateOpened {
			// (the listed finding is about the gate that has never been open in this incarnation;
			// a delete dropped by a gate that was open before is something else)
			inc.droppedDelete[key] = true
			w.stat("probe.delete-dropped-while-holding")
		}
	}
	res, err := wk.rec.Reconcile(context.Background(), reqFor(key))
	wk.busy = false
	switch {
	case err != nil:
		wk.q.AddRateLimited(key, w.now)
		w.stat("probe.reconcile-error-requeue")
		w.logf("%s worker: %s -> error %v (requeue with back-off)", wk.name, key, err)
	case res.RequeueAfter > 0:
		wk.q.Forget(key)
		wk.q.AddAfter(key, w.now+res.RequeueAfter)
	case res.Requeue:
		wk.q.AddRateLimited(key, w.now)
	default:
		wk.q.Forget(key)
	}
	wk.q.Done(key)
	w.drainReload(inc)
}

// interleave lets other workers and the informer make progress at a point where the running
// worker is about to touch shared state (cache read or Listener lock).
func (w *world) interleave(inc *incarnation) {
	if !w.k.interleave || inc != w.inc || !inc.started || inc.depth >= 3 || w.noInterleave {
		return
	}
	for {
		if !w.ch.Bool(1, 6, "interleave?") {
			return
		}
		var acts []func()
		var names []string
		for _, wk := range inc.workers {
			wk := wk
			if !wk.busy && wk.q.Len() > 0 {
				acts = append(acts, func() { w.workerStep(inc, wk) })
				names = append(names, "step "+wk.name)
			}
		}
		for _, k := range inc.cache.Lagging() {
			k := k
			acts = append(acts, func() { w.applyEvent(inc, k) })
			names = append(names, "apply "+string(k))
		}
		if w.opsLeft > 0 && !w.settling {
			acts = append(acts, func() { w.envOp() })
			names = append(names, "env op")
		}
		if len(acts) == 0 {
			return
		}
		i := w.ch.Intn(len(acts), "interleave what")
		w.stat("probe.interleaved-" + strings.Fields(names[i])[0])
		w.logf("  (interleaved: %s)", names[i])
		inc.depth++
		acts[i]()
		inc.depth--
		if inc != w.inc {
			return
		}
	}
}

func (w *world) applyEvent(inc *incarnation, k simk8s.Kind) {
	ev := inc.cache.ApplyNext(k)
	w.sched.add("apply:" + string(k) + ":" + ev.Key)
	w.logf("informer: %s %s %s", ev.Type, k, ev.Key)
}

// ---- handlers with oracles around them ----

func (w *world) holdings(inc *incarnation) specalloc.Holdings {
	h := specalloc.Holdings{}
	for key, vh := range inc.ctrl.ips.VerifHoldings() {
		var ips []netip.Addr
		for _, s := range vh.IPs {
			a, _ := netip.ParseAddr(s)
			ips = append(ips, a.Unmap())
		}
		h[key] = specalloc.Holding{IPs: ips, Svc: inc.lastSeen[key]}
	}
	return h
}

func (w *world) serviceHandler(inc *incarnation, l log.Logger, name string, svc *v1.Service, eps []discovery.EndpointSlice) controllers.SyncState {
	w.interleave(inc)
	pre := w.holdings(inc)
	prevSeen := inc.lastSeen[name]
	if svc != nil {
		inc.lastSeen[name] = svc.DeepCopy()
	} else {
		delete(inc.lastSeen, name)
	}
	w.sched.add("handler:svc:" + name)
	// listed finding: the handler is shown an object OLDER than the status the API server has for
	// the service (the cache lags behind the controller's own write) while memory agrees with the
	// API server: "no status" then makes it drop the allocation
	staleShown := false
	if api := w.getSvc(name); svc != nil && api != nil && svc.ResourceVersion != api.ResourceVersion && len(statusAddrs(api)) > 0 &&
		!addrsEq(statusAddrs(svc), statusAddrs(api)) && addrsEq(pre[name].IPs, statusAddrs(api)) {
		staleShown = true
	}
	inc.curName, inc.curSeen, inc.curPre = name, svc, pre
	res := inc.listener.ServiceHandler(l, name, svc, eps)
	inc.curName, inc.curSeen, inc.curPre = "", nil, nil
	// releases the controller decided in memory and that its own view justifies: the processed
	// service is gone / no LoadBalancer any more, its addresses are not admissible for its spec, or
	// its spec is in conflict with another service that holds the address IN MEMORY (an allocation
	// whose status write may still be pending).  The status correction of such a release may be
	// delayed by failing writes; giving the address to somebody else meanwhile is not a steal.
	{
		post := w.holdings(inc)
		for _, a := range pre[name].IPs {
			if containsAddr(post[name].IPs, a) {
				continue
			}
			justified := svc == nil || svc.Spec.Type != v1.ServiceTypeLoadBalancer || !w.managed(svc) ||
				inc.cfgInForce == nil || inc.cfgInForce.CheckAssignmentStatic(name, svc, pre[name].IPs) != ""
			if !justified {
				for _, x := range pre.HoldersOf(a) {
					if x != name && pre[x].Svc != nil && !specalloc.MustShare(svc, pre[x].Svc) {
						justified = true
					}
				}
			}
			if inc.justifiedRelease == nil {
				inc.justifiedRelease = map[string][]netip.Addr{}
			}
			var keep []netip.Addr
			for _, b := range inc.justifiedRelease[name] {
				if b != a {
					keep = append(keep, b)
				}
			}
			if justified {
				keep = append(keep, a)
			}
			inc.justifiedRelease[name] = keep
		}
		for _, a := range post[name].IPs {
			// re-acquired: the earlier release is history
			var keep []netip.Addr
			for _, b := range inc.justifiedRelease[name] {
				if b != a {
					keep = append(keep, b)
				}
			}
			if inc.justifiedRelease != nil {
				inc.justifiedRelease[name] = keep
			}
		}
	}
	if staleShown {
		post := w.holdings(inc)
		for _, a := range pre[name].IPs {
			if !containsAddr(post[name].IPs, a) {
				if inc.staleDropped == nil {
					inc.staleDropped = map[string][]netip.Addr{}
				}
				inc.staleDropped[name] = append(inc.staleDropped[name], a)
				w.stat("probe.stale-object-made-the-handler-drop-a-recorded-address")
			}
		}
	}
	w.logf("  SetBalancer(%s) -> %v holds=%v", name, syncName(res), inc.ctrl.ips.VerifHoldings()[name].IPs)
	w.afterServiceHandler(inc, name, svc, prevSeen, pre, res)
	return res
}

func syncName(s controllers.SyncState) string {
	return [...]string{"Success", "Error", "ReprocessAll", "ErrorNoRetry"}[s]
}

func (w *world) poolHandler(inc *incarnation, l log.Logger, pools *config.Pools) controllers.SyncState {
	w.interleave(inc)
	pre := w.holdings(inc)
	cfg, err := specalloc.Parse(inc.listedPools, inc.listedNS)
	if err != nil {
		// the reconciler accepted something the oracle cannot parse: harness gap, not a violation
		panic(fmt.Sprintf("specalloc cannot parse an accepted configuration: %v", err))
	}
	w.sched.add("handler:pools")
	inc.poolHandlerCalls++
	res := inc.listener.PoolHandler(l, pools)
	inc.cfgInForce = cfg
	inc.cfgRaw = describePools(inc.listedPools)
	w.markLapsed(inc)
	w.logf("  SetPools(%s) -> %v", inc.cfgRaw, syncName(res))
	w.afterPoolHandler(inc, pre, res)
	return res
}

func describePools(ps []metallbv1beta1.IPAddressPool) string {
	var out []string
	for _, p := range ps {
		s := fmt.Sprintf("%s%v", p.Name, p.Spec.Addresses)
		if p.Spec.AvoidBuggyIPs {
			s += "+avoidBuggy"
		}
		if p.Spec.AutoAssign != nil && !*p.Spec.AutoAssign {
			s += "+noauto"
		}
		if at := p.Spec.AllocateTo; at != nil {
			s += fmt.Sprintf("+allocTo{prio=%d ns=%v nssel=%d svcsel=%d}", at.Priority, at.Namespaces, len(at.NamespaceSelectors), len(at.ServiceSelectors))
		}
		out = append(out, s)
	}
	sort.Strings(out)
	return strings.Join(out, " ")
}

// ---- scheduler ----

func (w *world) quiescent() bool {
	inc := w.inc
	if len(inc.cache.Unsynced()) > 0 || len(inc.cache.Lagging()) > 0 {
		return false
	}
	for _, wk := range inc.workers {
		if !wk.q.Idle() {
			return false
		}
	}
	return true
}

func (w *world) crash(where string) {
	w.logf("CRASH (%s)", where)
	w.sched.add("crash")
	w.crashed = true
	w.opsSinceCrash = 0
	if w.k.crashAtOpp >= 0 {
		w.settling = true // enumeration: the recovery is judged on its own before the history goes on
	} else if w.ch.Bool(1, 2, "settle after crash?") {
		w.settling = true
	}
	w.crashStatuses = map[string][]netip.Addr{}
	for _, key := range w.srv.Keys("Service") {
		svc := w.srv.Get("Service", key).(*v1.Service)
		if a := statusAddrs(svc); len(a) > 0 {
			w.crashStatuses[key] = a
		}
	}
	w.newIncarnation()
}

type action struct {
	name   string
	weight int
	run    func()
}

// step performs one scheduler step; returns false when nothing can happen.
func (w *world) step() bool {
	if w.oppHit() {
		w.stat("fault.crash-between-events")
		w.crash("between events")
		return true
	}
	inc := w.inc
	var acts []action
	if un := inc.cache.Unsynced(); len(un) > 0 {
		for _, k := range un {
			k := k
			acts = append(acts, action{"sync " + string(k), 6, func() {
				p := identity
				if w.k.listPerm {
					p = w.perm("initial list order")
				}
				inc.cache.Sync(k, p)
				w.sched.add("sync:" + string(k))
				w.logf("informer: initial list of %s (%d objects)", k, len(inc.cache.Keys(k)))
			}})
		}
	} else {
		if !inc.started {
			inc.started = true
			if w.k.listPerm {
				for _, wk := range inc.workers {
					wk.q.Shuffle(w.perm("initial queue order"))
				}
			}
			w.logf("caches synced, workers start; service queue=%v", inc.workers[0].q.Items())
		}
		for _, wk := range inc.workers {
			wk := wk
			if wk.q.Len() > 0 {
				acts = append(acts, action{"step " + wk.name, 8, func() { w.workerStep(inc, wk) }})
			}
		}
	}
	for _, k := range inc.cache.Lagging() {
		k := k
		acts = append(acts, action{"apply " + string(k), 6, func() { w.applyEvent(inc, k) }})
	}
	if w.opsLeft > 0 && !w.settling {
		acts = append(acts, action{"env op", 4, func() { w.envOp() }})
	}
	// delayed items: the clock may jump when nothing else is runnable, or by choice
	var next time.Duration
	haveTimer := false
	for _, wk := range inc.workers {
		if at, ok := wk.q.NextReady(); ok && (!haveTimer || at < next) {
			next, haveTimer = at, true
		}
	}
	if haveTimer {
		wgt := 1
		if len(acts) == 0 {
			wgt = 8
		}
		acts = append(acts, action{"clock", wgt, func() {
			if next > w.now {
				w.now = next
			}
			for _, wk := range inc.workers {
				wk.q.Tick(w.now)
			}
			w.sched.add("clock")
		}})
	}
	if w.faultsOn && inc.started {
		if w.k.fResync && len(inc.cache.Keys("Service")) > 0 {
			acts = append(acts, action{"resync", 1, func() {
				kinds := []simk8s.Kind{"Service", "IPAddressPool", "Namespace"}
				k := kinds[w.ch.Intn(len(kinds), "resync kind")]
				keys := inc.cache.Keys(k)
				if len(keys) == 0 {
					return
				}
				key := keys[w.ch.Intn(len(keys), "resync key")]
				w.stat("fault.duplicate-event")
				w.logf("informer: resync (duplicate update) of %s %s", k, key)
				inc.cache.Resync(k, key)
			}})
		}
		if w.k.fCrash && w.k.crashBudget > 0 {
			acts = append(acts, action{"crash", 1, func() {
				w.k.crashBudget--
				w.stat("fault.crash-between-events")
				w.crash("between events")
			}})
		}
	}
	if len(acts) == 0 {
		return false
	}
	total := 0
	for _, a := range acts {
		total += a.weight
	}
	r := w.ch.Intn(total, "schedule")
	for _, a := range acts {
		if r < a.weight {
			a.run()
			return true
		}
		r -= a.weight
	}
	return true
}

// oppHit numbers the crash opportunities of the run (crash-point enumeration) and reports whether
// this one is the enumerated point.
func (w *world) oppHit() bool {
	hit := w.k.crashAtOpp >= 0 && w.opp == w.k.crashAtOpp
	w.opp++
	return hit
}

// runProtected executes one scheduler step, turning a crash sentinel into a restart.
func (w *world) runProtected() (progressed bool) {
	defer func() {
		if r := recover(); r != nil {
			if cs, ok := r.(crashSentinel); ok {
				w.crash(cs.where)
				progressed = true
				return
			}
			if _, ok := r.(choice.ErrBudget); ok {
				panic(r)
			}
			if mlb, where := runner.PanicOrigin(string(debug.Stack())); mlb {
				w.violate(firstProp(w.env), "panic-in-metallb", "", fmt.Sprintf("MetalLB code panicked: %v (at %s)", r, where))
				progressed = false
				return
			}
			panic(r)
		}
	}()
	return w.step()
}

// settle runs without environment operations until quiescence.  Returns false on livelock.
func (w *world) settle(bound int) bool {
	save := w.settling
	w.settling = true
	defer func() { w.settling = save }()
	for i := 0; i < bound; i++ {
		if w.viol != nil || w.halt {
			return true
		}
		if w.quiescent() {
			return true
		}
		if !w.runProtected() {
			return w.quiescent()
		}
	}
	return w.quiescent()
}

func simMapOrder(w *world) func(n int) []int {
	return func(n int) []int {
		// one draw: rotation and direction (full permutations for n<=4)
		if n <= 4 {
			return w.ch.Perm(n, "map order")
		}
		r := w.ch.Intn(2*n, "map order")
		out := make([]int, n)
		for i := range out {
			if r < n {
				out[i] = (r + i) % n
			} else {
				out[i] = ((r-n)-i%n + n) % n
			}
		}
		return out
	}
}

var _ = simrt.MapOrder
