//go:build verif

package main

import (
	"fmt"
	"net/netip"
	"reflect"
	"sort"
	"strings"

	metallbv1beta1 "go.universe.tf/metallb/api/v1beta1"
	"go.universe.tf/metallb/internal/verifsim/specalloc"
	v1 "k8s.io/api/core/v1"
	metav1 "k8s.io/apimachinery/pkg/apis/meta/v1"
)

// Address universe: small blocks so that exhaustion, sharing and boundary cases are common.
var addrUniverse = []string{
	"10.0.0.0/30",         // contains .0
	"10.0.0.4/30",         //
	"10.0.0.8-10.0.0.9",   // range notation
	"10.0.0.254-10.0.1.1", // crosses .255/.0
	"10.0.1.16/31",        //
	"10.0.1.32/32",        //
	"10.0.1.255/32",       // a /32 on a buggy address
	"fd00::/126",          //
	"fd00::10-fd00::11",   //
	"fd00:0:0:1::/127",    //
	"fd00:0:0:2::1/128",   //
	"10.0.0.0/29",         // overlaps the first two (invalid when combined)
	"fd00:1::/64",         // astronomically large (only with knob huge)
	"fd00:2::/120",        // combined with the huge one
}

var svcNames = []string{"s1", "s2", "s3", "s4", "s5", "s6", "s7", "s8", "s9", "s10"}
var nsNames = []string{"ns1", "ns2"}
var poolNames = []string{"p1", "p2", "p3", "p4", "p5"}

type portDef struct {
	proto v1.Protocol
	port  int32
}

var portUniverse = []portDef{{v1.ProtocolTCP, 80}, {v1.ProtocolTCP, 443}, {v1.ProtocolUDP, 53}, {v1.ProtocolTCP, 8080}}

func (w *world) pick(n int, label string) int { return w.ch.Intn(n, label) }

func (w *world) svcKeys() []string  { return w.srv.Keys("Service") }
func (w *world) poolKeys() []string { return w.srv.Keys("IPAddressPool") }

func (w *world) getSvc(key string) *v1.Service {
	o := w.srv.Get("Service", key)
	if o == nil {
		return nil
	}
	return o.(*v1.Service)
}

func (w *world) getPool(key string) *metallbv1beta1.IPAddressPool {
	o := w.srv.Get("IPAddressPool", key)
	if o == nil {
		return nil
	}
	return o.(*metallbv1beta1.IPAddressPool)
}

func (w *world) setupCluster() {
	for i, n := range nsNames {
		ns := &v1.Namespace{ObjectMeta: metav1.ObjectMeta{Name: n, Labels: map[string]string{"team": string(rune('a' + i))}}}
		_ = w.srv.Create(ns)
	}
}

// ---- services ----

func (w *world) genPorts(svc *v1.Service) {
	n := 1 + w.pick(3, "nports")
	used := map[int]bool{}
	svc.Spec.Ports = nil
	for len(svc.Spec.Ports) < n {
		i := w.pick(len(portUniverse), "port")
		if used[i] {
			i = (i + 1) % len(portUniverse)
			if used[i] {
				break
			}
		}
		used[i] = true
		svc.Spec.Ports = append(svc.Spec.Ports, v1.ServicePort{Name: fmt.Sprintf("p%d", i), Protocol: portUniverse[i].proto, Port: portUniverse[i].port})
	}
}

func setAnn(svc *v1.Service, k, v string) {
	if svc.Annotations == nil {
		svc.Annotations = map[string]string{}
	}
	svc.Annotations[k] = v
}

func (w *world) genSharing(svc *v1.Service) {
	delete(svc.Annotations, "metallb.io/allow-shared-ip")
	delete(svc.Annotations, "metallb.universe.tf/allow-shared-ip")
	switch w.pick(8, "sharing") {
	case 0, 1, 2:
	case 3, 4:
		setAnn(svc, "metallb.io/allow-shared-ip", "k1")
	case 5:
		setAnn(svc, "metallb.io/allow-shared-ip", "k2")
	case 6:
		setAnn(svc, "metallb.universe.tf/allow-shared-ip", "k1")
	case 7:
		setAnn(svc, "metallb.io/allow-shared-ip", "k1")
		setAnn(svc, "metallb.universe.tf/allow-shared-ip", "k2")
	}
}

func (w *world) genBackend(svc *v1.Service) {
	if w.pick(3, "etp") == 2 {
		svc.Spec.ExternalTrafficPolicy = v1.ServiceExternalTrafficPolicyTypeLocal
	} else {
		svc.Spec.ExternalTrafficPolicy = v1.ServiceExternalTrafficPolicyTypeCluster
	}
	svc.Spec.Selector = map[string]string{"app": []string{"a", "b"}[w.pick(2, "selector")]}
	if w.pick(3, "selector labels") == 0 {
		svc.Spec.Selector["track"] = "stable"
		svc.Spec.Selector["zone"] = "z1"
	}
}

// poolAddrs enumerates up to lim usable-or-not addresses of the pools currently in the API.
func (w *world) poolAddrs(lim int) []netip.Addr {
	var out []netip.Addr
	for _, pk := range w.poolKeys() {
		p := w.getPool(pk)
		for _, s := range p.Spec.Addresses {
			r, err := specalloc.ParseRange(s)
			if err != nil {
				continue
			}
			n := 0
			for a := r.Lo; n < 6; a = a.Next() {
				out = append(out, a)
				n++
				if a == r.Hi {
					break
				}
			}
		}
	}
	if len(out) > lim {
		out = out[:lim]
	}
	return out
}

func (w *world) heldAddrs() []netip.Addr {
	var out []netip.Addr
	for _, k := range w.svcKeys() {
		out = append(out, statusAddrs(w.getSvc(k))...)
	}
	return out
}

func (w *world) genRequest(svc *v1.Service) {
	delete(svc.Annotations, "metallb.io/loadBalancerIPs")
	delete(svc.Annotations, "metallb.universe.tf/loadBalancerIPs")
	svc.Spec.LoadBalancerIP = ""
	mode := w.pick(10, "request")
	if mode < 6 {
		return
	}
	f := specalloc.FamiliesOf(svc)
	var cands []netip.Addr
	switch w.pick(4, "request source") {
	case 0, 1:
		cands = w.poolAddrs(40)
	case 2:
		cands = w.heldAddrs()
	case 3:
		cands = []netip.Addr{netip.MustParseAddr("192.168.9.9"), netip.MustParseAddr("fd99::9")}
	}
	var v4s, v6s []netip.Addr
	for _, a := range cands {
		if a.Is4() {
			v4s = append(v4s, a)
		} else {
			v6s = append(v6s, a)
		}
	}
	var want []string
	wrong := w.pick(8, "request wrong family") == 0
	need4, need6 := f.V4, f.V6
	if wrong {
		need4, need6 = !need4 || f.Dual(), !need6 && !f.Dual()
	}
	if need4 && len(v4s) > 0 {
		want = append(want, v4s[w.pick(len(v4s), "req v4")].String())
	}
	if need6 && len(v6s) > 0 {
		want = append(want, v6s[w.pick(len(v6s), "req v6")].String())
	}
	if len(want) == 0 {
		return
	}
	if w.pick(16, "request malformed") == 0 {
		want = []string{"not-an-ip"}
	}
	switch {
	case mode == 6 && len(want) == 1:
		svc.Spec.LoadBalancerIP = want[0]
	case mode == 7:
		setAnn(svc, "metallb.universe.tf/loadBalancerIPs", strings.Join(want, ","))
	default:
		setAnn(svc, "metallb.io/loadBalancerIPs", strings.Join(want, ", "))
	}
}

func (w *world) genPoolAnn(svc *v1.Service) {
	delete(svc.Annotations, "metallb.io/address-pool")
	delete(svc.Annotations, "metallb.universe.tf/address-pool")
	switch w.pick(10, "pool annotation") {
	case 0, 1:
		setAnn(svc, "metallb.io/address-pool", poolNames[w.pick(w.k.maxPools, "pool name")])
	case 2:
		setAnn(svc, "metallb.universe.tf/address-pool", poolNames[w.pick(w.k.maxPools, "pool name")])
	case 3:
		if w.pick(3, "missing pool") == 0 {
			setAnn(svc, "metallb.io/address-pool", "nosuchpool")
		}
	}
}

func (w *world) genLabels(svc *v1.Service) {
	switch w.pick(3, "labels") {
	case 0:
		svc.Labels = nil
	case 1:
		svc.Labels = map[string]string{"tier": "web"}
	case 2:
		svc.Labels = map[string]string{"tier": "db"}
	}
}

func (w *world) newService(ns, name string) *v1.Service {
	svc := &v1.Service{ObjectMeta: metav1.ObjectMeta{Namespace: ns, Name: name}}
	svc.Spec.Type = v1.ServiceTypeLoadBalancer
	if w.pick(8, "type") == 0 {
		svc.Spec.Type = v1.ServiceTypeClusterIP
	}
	idx := 0
	for i, n := range svcNames {
		if n == name {
			idx = i + 1
		}
	}
	if ns == "ns2" {
		idx += 100
	}
	v4 := fmt.Sprintf("172.16.0.%d", idx)
	v6 := fmt.Sprintf("fd10::%x", idx)
	single, prefer, require := v1.IPFamilyPolicySingleStack, v1.IPFamilyPolicyPreferDualStack, v1.IPFamilyPolicyRequireDualStack
	switch w.pick(12, "families") {
	case 0, 1, 2, 3, 4:
		svc.Spec.ClusterIPs = []string{v4}
		svc.Spec.IPFamilies = []v1.IPFamily{v1.IPv4Protocol}
		if w.pick(2, "policy set") == 1 {
			svc.Spec.IPFamilyPolicy = &single
		}
	case 5, 6:
		svc.Spec.ClusterIPs = []string{v6}
		svc.Spec.IPFamilies = []v1.IPFamily{v1.IPv6Protocol}
	case 7:
		svc.Spec.ClusterIPs = []string{v4, v6}
		svc.Spec.IPFamilies = []v1.IPFamily{v1.IPv4Protocol, v1.IPv6Protocol}
		svc.Spec.IPFamilyPolicy = &require
	case 8:
		svc.Spec.ClusterIPs = []string{v6, v4}
		svc.Spec.IPFamilies = []v1.IPFamily{v1.IPv6Protocol, v1.IPv4Protocol}
		svc.Spec.IPFamilyPolicy = &require
	case 9:
		svc.Spec.ClusterIPs = []string{v4, v6}
		svc.Spec.IPFamilies = []v1.IPFamily{v1.IPv4Protocol, v1.IPv6Protocol}
		svc.Spec.IPFamilyPolicy = &prefer
	case 10:
		svc.Spec.ClusterIPs = []string{v6, v4}
		svc.Spec.IPFamilies = []v1.IPFamily{v1.IPv6Protocol, v1.IPv4Protocol}
		svc.Spec.IPFamilyPolicy = &prefer
	case 11:
		// a PreferDualStack service on a single-stack cluster, or a headless-like service without cluster IP
		if w.pick(2, "odd families") == 0 {
			svc.Spec.ClusterIPs = []string{v4}
			svc.Spec.IPFamilies = []v1.IPFamily{v1.IPv4Protocol}
			svc.Spec.IPFamilyPolicy = &prefer
		} else {
			svc.Spec.ClusterIPs = nil
		}
	}
	if len(svc.Spec.ClusterIPs) > 0 {
		svc.Spec.ClusterIP = svc.Spec.ClusterIPs[0]
	}
	w.genPorts(svc)
	w.genSharing(svc)
	w.genBackend(svc)
	w.genLabels(svc)
	w.genRequest(svc)
	w.genPoolAnn(svc)
	if w.k.lbClass != "" || w.pick(16, "lbclass") == 0 {
		cls := []string{"metallb", "other"}[w.pick(2, "lbclass value")]
		if w.pick(4, "lbclass nil") != 0 {
			svc.Spec.LoadBalancerClass = &cls
		}
	}
	return svc
}

func (w *world) opCreateService() bool {
	if len(w.svcKeys()) >= w.k.maxSvc {
		return false
	}
	ns := nsNames[w.pick(2, "svc ns")]
	var free []string
	for _, n := range svcNames[:w.k.maxSvc] {
		if w.srv.Get("Service", ns+"/"+n) == nil {
			free = append(free, n)
		}
	}
	if len(free) == 0 {
		return false
	}
	svc := w.newService(ns, free[0])
	_ = w.srv.Create(svc)
	w.opSeq++
	w.changedAt[ns+"/"+free[0]] = w.opSeq
	w.logf("ENV create service %s", specalloc.Describe(svc))
	return true
}

func (w *world) opUpdateService() bool {
	keys := w.svcKeys()
	if len(keys) == 0 {
		return false
	}
	svc := w.getSvc(keys[w.pick(len(keys), "which svc")])
	what := ""
	switch w.pick(8, "svc update") {
	case 0:
		w.genPorts(svc)
		what = "ports"
	case 1:
		w.genSharing(svc)
		what = "sharing"
	case 2:
		w.genBackend(svc)
		what = "backend"
	case 3:
		if svc.Spec.Type == v1.ServiceTypeLoadBalancer {
			svc.Spec.Type = v1.ServiceTypeClusterIP
		} else {
			svc.Spec.Type = v1.ServiceTypeLoadBalancer
		}
		what = "type"
	case 4:
		w.genRequest(svc)
		what = "request"
	case 5:
		w.genPoolAnn(svc)
		what = "pool annotation"
	case 6:
		w.genLabels(svc)
		what = "labels"
	case 7:
		// drop one port (a co-tenant shrinking its port set)
		if len(svc.Spec.Ports) > 1 {
			svc.Spec.Ports = svc.Spec.Ports[:len(svc.Spec.Ports)-1]
		} else {
			w.genPorts(svc)
		}
		what = "ports-"
	}
	svc.ResourceVersion = ""
	w.opSeq++
	key := svc.Namespace + "/" + svc.Name
	if before := w.getSvc(key); before != nil {
		before.ResourceVersion = ""
		if !reflect.DeepEqual(before, svc) {
			w.changedAt[key] = w.opSeq // (an update that changes nothing produces no event)
		}
	}
	if old := w.getSvc(key); old != nil && specalloc.SharingKey(old) != "" && len(statusAddrs(old)) > 0 {
		now := map[string]bool{}
		for _, p := range svc.Spec.Ports {
			now[fmt.Sprintf("%s/%d", p.Protocol, p.Port)] = true
		}
		for _, p := range old.Spec.Ports {
			if !now[fmt.Sprintf("%s/%d", p.Protocol, p.Port)] {
				w.portDrops = append(w.portDrops, excuse{w.opSeq, statusAddrs(old)})
				w.stat("probe.sharing-cotenant-dropped-port")
				break
			}
		}
	}
	_ = w.srv.Update(svc)
	w.logf("ENV update service (%s) %s", what, specalloc.Describe(svc))
	return true
}

func (w *world) opDeleteService() bool {
	keys := w.svcKeys()
	if len(keys) == 0 {
		return false
	}
	k := keys[w.pick(len(keys), "which svc")]
	_ = w.srv.Delete("Service", k)
	w.logf("ENV delete service %s", k)
	return true
}

// ---- pools ----

func (w *world) usedEntries() map[string]bool {
	used := map[string]bool{}
	for _, pk := range w.poolKeys() {
		for _, a := range w.getPool(pk).Spec.Addresses {
			used[a] = true
		}
	}
	return used
}

func (w *world) freeEntries(allowOverlap bool) []string {
	used := w.usedEntries()
	var out []string
	for _, e := range addrUniverse {
		if used[e] {
			continue
		}
		switch e {
		case "10.0.0.0/29":
			if !allowOverlap {
				continue
			}
		case "fd00:1::/64", "fd00:2::/120":
			if !w.k.huge {
				continue
			}
		case "10.0.1.255/32":
		}
		out = append(out, e)
	}
	return out
}

func (w *world) genAllocateTo(p *metallbv1beta1.IPAddressPool) {
	if w.pick(2, "allocateTo") == 0 {
		p.Spec.AllocateTo = nil
		return
	}
	at := &metallbv1beta1.ServiceAllocation{Priority: w.pick(4, "priority")}
	switch w.pick(5, "alloc namespaces") {
	case 1:
		at.Namespaces = []string{"ns1"}
	case 2:
		at.Namespaces = []string{"ns2"}
	case 3:
		at.Namespaces = []string{"ns1", "ns2"}
	case 4:
		team := []string{"a", "b", "zzz"}[w.pick(3, "ns selector")]
		if team == "zzz" && w.k.avoidKnown {
			team = "a"
		}
		at.NamespaceSelectors = []metav1.LabelSelector{{MatchLabels: map[string]string{"team": team}}}
	}
	switch w.pick(4, "alloc svc selectors") {
	case 1:
		at.ServiceSelectors = []metav1.LabelSelector{{MatchLabels: map[string]string{"tier": "web"}}}
	case 2:
		at.ServiceSelectors = []metav1.LabelSelector{{MatchLabels: map[string]string{"tier": "web"}}, {MatchLabels: map[string]string{"tier": "db"}}}
	}
	p.Spec.AllocateTo = at
}

func (w *world) opCreatePool() bool {
	var free []string
	for _, n := range poolNames[:w.k.maxPools] {
		if w.srv.Get("IPAddressPool", metallbNS+"/"+n) == nil {
			free = append(free, n)
		}
	}
	ents := w.freeEntries(w.pick(12, "allow overlap") == 0)
	if len(free) == 0 || len(ents) == 0 {
		return false
	}
	p := &metallbv1beta1.IPAddressPool{ObjectMeta: metav1.ObjectMeta{Namespace: metallbNS, Name: free[w.pick(len(free), "pool name")]}}
	n := 1 + w.pick(3, "entries")
	for i := 0; i < n && len(ents) > 0; i++ {
		j := w.pick(len(ents), "entry")
		p.Spec.Addresses = append(p.Spec.Addresses, ents[j])
		ents = append(ents[:j], ents[j+1:]...)
	}
	p.Spec.AvoidBuggyIPs = w.pick(3, "avoidBuggy") == 0
	if w.pick(5, "autoAssign") == 0 {
		f := false
		p.Spec.AutoAssign = &f
	}
	w.genAllocateTo(p)
	_ = w.srv.Create(p)
	w.logf("ENV create pool %s", describePools([]metallbv1beta1.IPAddressPool{*p}))
	return true
}

func (w *world) opUpdatePool() bool {
	keys := w.poolKeys()
	if len(keys) == 0 {
		return false
	}
	p := w.getPool(keys[w.pick(len(keys), "which pool")])
	what := ""
	switch w.pick(6, "pool update") {
	case 0:
		v := !(p.Spec.AutoAssign == nil || *p.Spec.AutoAssign)
		p.Spec.AutoAssign = &v
		what = "autoAssign"
	case 1:
		p.Spec.AvoidBuggyIPs = !p.Spec.AvoidBuggyIPs
		what = "avoidBuggy"
	case 2:
		w.genAllocateTo(p)
		what = "allocateTo"
	case 3:
		ents := w.freeEntries(w.pick(12, "allow overlap") == 0)
		if len(ents) == 0 {
			return false
		}
		p.Spec.Addresses = append(p.Spec.Addresses, ents[w.pick(len(ents), "entry")])
		what = "grow"
	case 4:
		if len(p.Spec.Addresses) < 2 {
			return false
		}
		i := w.pick(len(p.Spec.Addresses), "drop entry")
		p.Spec.Addresses = append(append([]string{}, p.Spec.Addresses[:i]...), p.Spec.Addresses[i+1:]...)
		what = "shrink"
	case 5:
		// move one entry to another pool (two updates)
		if len(keys) < 2 || len(p.Spec.Addresses) < 2 {
			return false
		}
		var other *metallbv1beta1.IPAddressPool
		for _, k := range keys {
			if k != metallbNS+"/"+p.Name {
				other = w.getPool(k)
				break
			}
		}
		i := w.pick(len(p.Spec.Addresses), "move entry")
		e := p.Spec.Addresses[i]
		p.Spec.Addresses = append(append([]string{}, p.Spec.Addresses[:i]...), p.Spec.Addresses[i+1:]...)
		other.Spec.Addresses = append(other.Spec.Addresses, e)
		p.ResourceVersion, other.ResourceVersion = "", ""
		_ = w.srv.Update(p)
		_ = w.srv.Update(other)
		w.logf("ENV move entry %s from pool %s to %s", e, p.Name, other.Name)
		return true
	}
	p.ResourceVersion = ""
	_ = w.srv.Update(p)
	w.logf("ENV update pool (%s) %s", what, describePools([]metallbv1beta1.IPAddressPool{*p}))
	return true
}

func (w *world) opDeletePool() bool {
	keys := w.poolKeys()
	if len(keys) == 0 {
		return false
	}
	k := keys[w.pick(len(keys), "which pool")]
	_ = w.srv.Delete("IPAddressPool", k)
	w.logf("ENV delete pool %s", k)
	return true
}

func (w *world) opRenamePool() bool {
	keys := w.poolKeys()
	var free []string
	for _, n := range poolNames[:w.k.maxPools] {
		if w.srv.Get("IPAddressPool", metallbNS+"/"+n) == nil {
			free = append(free, n)
		}
	}
	if len(keys) == 0 || len(free) == 0 {
		return false
	}
	old := w.getPool(keys[w.pick(len(keys), "which pool")])
	np := &metallbv1beta1.IPAddressPool{ObjectMeta: metav1.ObjectMeta{Namespace: metallbNS, Name: free[0]}, Spec: *old.Spec.DeepCopy()}
	_ = w.srv.Delete("IPAddressPool", metallbNS+"/"+old.Name)
	_ = w.srv.Create(np)
	w.stat("probe.pool-renamed")
	w.logf("ENV rename pool %s -> %s", old.Name, np.Name)
	return true
}

func (w *world) opRelabelNamespace() bool {
	n := nsNames[w.pick(2, "which ns")]
	ns := w.srv.Get("Namespace", "/"+n).(*v1.Namespace)
	if w.k.avoidKnown {
		// keep every namespace selector of the generator matched by some namespace: only touch a label
		// that no selector uses (the event still reaches the pool reconciler)
		ns.Labels = map[string]string{"team": ns.Labels["team"], "env": []string{"x", "y", "z"}[w.pick(3, "env label")]}
	} else {
		ns.Labels = map[string]string{"team": []string{"a", "b", "c"}[w.pick(3, "team")]}
	}
	ns.ResourceVersion = ""
	_ = w.srv.Update(ns)
	w.logf("ENV relabel namespace %s %v", n, ns.Labels)
	return true
}

// envOp performs one generated environment operation.
func (w *world) envOp() {
	w.opsLeft--
	w.opsSinceCrash++
	w.sched.add("env")
	for tries := 0; tries < 4; tries++ {
		ok := false
		r := w.pick(20, "env op")
		switch {
		case r < 5:
			ok = w.opCreateService()
		case r < 9:
			ok = w.opUpdateService()
		case r < 11:
			ok = w.opDeleteService()
		case r < 14:
			ok = w.opCreatePool()
		case r < 16:
			ok = w.opUpdatePool()
		case r < 17:
			ok = w.opDeletePool()
		case r < 18:
			ok = w.opRenamePool()
		case r < 19:
			ok = w.opRelabelNamespace()
		default:
			// (in the controller process a reload request always follows a pool reconcile that
			// called SetPools - PoolReconciler.ForceReload, or a handler returning ReprocessAll -
			// so the environment does not invent one before this incarnation has its pools)
			if w.inc.started && w.inc.poolHandlerCalls > 0 {
				w.inc.workers[0].q.Add(reloadKey)
				w.logf("ENV forced full re-sync")
				ok = true
			}
		}
		if ok {
			break
		}
	}
	w.applyEager()
	if w.ch.Bool(1, 2, "settle after op?") {
		w.settling = true
	}
}

func indexOf(ss []string, x string) int {
	for i, s := range ss {
		if s == x {
			return i
		}
	}
	return 0
}

func sortedKeys[V any](m map[string]V) []string {
	out := make([]string, 0, len(m))
	for k := range m {
		out = append(out, k)
	}
	sort.Strings(out)
	return out
}
