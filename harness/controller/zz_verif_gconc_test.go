//go:build verif

package main

// G-conc, controller side (DESIGN.md §3.8, C20): the three worker goroutines of the production
// controller process (service events incl. full re-syncs, pool/configuration events, pool status
// queries) run as tasks of the goroutine engine against the REAL k8s.Listener methods and the
// real allocator, in a binary built with -race.  The simulator's own hand-offs are invisible to
// the race detector (RaceDisable windows, //go:norace), scheduler-owned locks report
// RaceAcquire/RaceRelease: the only happens-before edges the detector sees are the program's own,
// so a missing or misplaced lock is a deterministic, replayable data race although execution is
// serialised.  In addition: no deadlock, and final state = serial replay of the same handler
// invocations in the order in which they acquired the Listener lock; every status query returns
// a value the serial replay passes through in the window enclosing the query.

import (
	"fmt"
	"sync"
	"runtime"
	"os"
	"reflect"
	"sort"
	"strings"
	"testing"
	"testing/synctest"
	"time"

	"github.com/go-kit/log"
	metallbv1beta1 "go.universe.tf/metallb/api/v1beta1"
	"go.universe.tf/metallb/internal/allocator"
	"go.universe.tf/metallb/internal/config"
	"go.universe.tf/metallb/internal/k8s"
	"go.universe.tf/metallb/internal/verifsim/runner"
	"go.universe.tf/metallb/internal/verifsim/simrt"
	"go.universe.tf/metallb/internal/verifsim/simsync"
	v1 "k8s.io/api/core/v1"
	metav1 "k8s.io/apimachinery/pkg/apis/meta/v1"
)

var curTconc *testing.T

type concOp struct {
	kind  string // svc, del, pools, resync
	name  string
	spec  *v1.Service
	pools *config.Pools
}

type statusStore struct{ m map[string]*v1.Service }

func (s *statusStore) UpdateStatus(svc *v1.Service) error {
	s.m[svc.Namespace+"/"+svc.Name] = svc.DeepCopy()
	return nil
}
func (s *statusStore) Infof(svc *v1.Service, desc, msg string, args ...interface{})  {}
func (s *statusStore) Errorf(svc *v1.Service, desc, msg string, args ...interface{}) {}

type concInst struct {
	ctrl     *controller
	listener *k8s.Listener
	store    *statusStore
	changes  []concChange // counter values after every change callback
}

type concChange struct {
	pool string
	c    allocator.PoolCounters
}

func newConcInst() *concInst {
	in := &concInst{store: &statusStore{m: map[string]*v1.Service{}}}
	in.ctrl = &controller{client: in.store}
	in.ctrl.ips = allocator.New(func(name string) {
		in.changes = append(in.changes, concChange{name, in.ctrl.ips.CountersForPool(name)})
	})
	in.listener = &k8s.Listener{ServiceChanged: in.ctrl.SetBalancer, PoolChanged: in.ctrl.SetPools}
	return in
}

//go:norace
func (in *concInst) apply(op concOp) {
	l := log.NewNopLogger()
	switch op.kind {
	case "svc":
		svc := op.spec.DeepCopy()
		if cur := in.store.m[op.name]; cur != nil {
			svc.Status = *cur.Status.DeepCopy()
			svc.Annotations = cur.Annotations
			for k, v := range op.spec.Annotations {
				if svc.Annotations == nil {
					svc.Annotations = map[string]string{}
				}
				svc.Annotations[k] = v
			}
		}
		in.listener.ServiceHandler(l, op.name, svc, nil)
	case "del":
		delete(in.store.m, op.name)
		in.listener.ServiceHandler(l, op.name, nil, nil)
	case "pools":
		in.listener.PoolHandler(l, op.pools)
	}
}

func concPools(variant int) *config.Pools {
	mk := func(name string, addrs ...string) metallbv1beta1.IPAddressPool {
		return metallbv1beta1.IPAddressPool{ObjectMeta: metav1.ObjectMeta{Name: name, Namespace: metallbNS}, Spec: metallbv1beta1.IPAddressPoolSpec{Addresses: addrs}}
	}
	var ps []metallbv1beta1.IPAddressPool
	switch variant {
	case 0:
		ps = []metallbv1beta1.IPAddressPool{mk("p1", "10.0.0.0/31"), mk("p2", "10.0.1.0/31")}
	case 1:
		ps = []metallbv1beta1.IPAddressPool{mk("p1", "10.0.0.0/31")} // p2 disappears
	case 2:
		ps = []metallbv1beta1.IPAddressPool{mk("p3", "10.0.0.0/31"), mk("p2", "10.0.1.0/31")} // p1 renamed
	case 3:
		ps = []metallbv1beta1.IPAddressPool{mk("p1", "10.0.0.0/32"), mk("p2", "10.0.1.0/31", "10.0.0.1/32")} // regrouped
	}
	cfg, err := config.For(config.ClusterResources{Pools: ps}, config.DontValidate)
	if err != nil {
		panic(err)
	}
	return cfg.Pools
}

type fetchRec struct {
	pool   string
	lo, hi int
	c      allocator.PoolCounters
}

type concWorld struct {
	order     []string // task names in the order in which they were granted the Listener lock
	started   int
	completed int
	fetches   []fetchRec
	lname     string
}

func gconcCtlRun(env *runner.Env) (res *runner.Result) {
	stats := map[string]int64{}
	res = &runner.Result{Stats: stats}
	ch := env.Ch
	pick := func(n int, l string) int { return ch.Intn(n, l) }
	defer func() {
		simrt.Active, simrt.SelectOrder, simrt.MapOrder = nil, nil, nil
		simsync.LockOrder = nil
	}()
	racesBefore := simrt.RaceErrors()
	bubble := func(t *testing.T) {
		simrt.SetEpoch()
		s := simrt.NewSched(func(n int, l string) int { return ch.Intn(n, l) })
		s.Verbose = env.Verbose
		simrt.Active = s
		simrt.MapOrder = nil // sorted map order: the serial replay must see the same order
		w := &concWorld{}
		inst := newConcInst()
		// ---- scripts (all drawn here, before any task runs) ----
		names := []string{"ns1/s1", "ns1/s2", "ns1/s3"}
		mkSvc := func(name string) *v1.Service {
			parts := strings.Split(name, "/")
			svc := &v1.Service{ObjectMeta: metav1.ObjectMeta{Namespace: parts[0], Name: parts[1]}}
			svc.Spec.Type = v1.ServiceTypeLoadBalancer
			if pick(6, "type") == 0 {
				svc.Spec.Type = v1.ServiceTypeClusterIP
			}
			svc.Spec.ClusterIPs = []string{"172.16.0.1"}
			svc.Spec.ClusterIP = "172.16.0.1"
			svc.Spec.Ports = []v1.ServicePort{{Protocol: v1.ProtocolTCP, Port: int32(80 + pick(2, "port"))}}
			if pick(3, "sharing") == 0 {
				svc.Annotations = map[string]string{"metallb.io/allow-shared-ip": "k"}
			}
			if pick(4, "pool ann") == 0 {
				if svc.Annotations == nil {
					svc.Annotations = map[string]string{}
				}
				svc.Annotations["metallb.io/address-pool"] = []string{"p1", "p2", "p3"}[pick(3, "pool")]
			}
			return svc
		}
		var svcOps, poolOps []concOp
		poolOps = append(poolOps, concOp{kind: "pools", pools: concPools(0)})
		for i, n := 0, 1+pick(4, "pool ops"); i < n; i++ {
			poolOps = append(poolOps, concOp{kind: "pools", pools: concPools(pick(4, "pool variant"))})
		}
		for i, n := 0, 3+pick(10, "svc ops"); i < n; i++ {
			name := names[pick(len(names), "svc")]
			switch pick(6, "svc op") {
			case 0:
				svcOps = append(svcOps, concOp{kind: "del", name: name})
			case 1:
				// a full re-sync: every known service in turn
				for _, nm := range names {
					svcOps = append(svcOps, concOp{kind: "svc", name: nm, spec: mkSvc(nm)})
				}
			default:
				svcOps = append(svcOps, concOp{kind: "svc", name: name, spec: mkSvc(name)})
			}
		}
		nFetch := 4 + pick(20, "fetches")
		fetchPools := make([]string, nFetch)
		for i := range fetchPools {
			fetchPools[i] = []string{"p1", "p2", "p3"}[pick(3, "fetch pool")]
		}
		simsync.LockOrder = w.lockOrder
		workersDone := 0
		var finished sync.WaitGroup // real synchronisation: everything the workers did happens before the serial replay
		finished.Add(3)
		s.GoNamed("setup", false, func() {
			// the first configuration is in force before the workers race (as after start-up)
			inst.apply(poolOps[0])
			w.lname = inst.listener.Mutex.VerifName()
			w.order, w.started, w.completed = nil, 0, 0
			inst.changes = nil
			s.GoNamed("svcworker", false, func() { concWorker(w, inst, svcOps, &workersDone); finished.Done() })
			s.GoNamed("poolworker", false, func() { concWorker(w, inst, poolOps[1:], &workersDone); finished.Done() })
			s.GoNamed("statusworker", false, func() { concFetcher(w, inst, fetchPools, &workersDone); finished.Done() })
		})
		reason := s.Run(func() bool { return workersDone == 3 }, 200000, time.Hour)
		violate := func(inv, msg string) {
			if res.Violation == nil && env.On("C20") {
				res.Violation = &runner.Violation{Property: "C20", Invariant: inv, Message: msg}
			}
		}
		switch {
		case strings.HasPrefix(reason, "panic"):
			if strings.Contains(reason, "zz_verif_gconc") && !strings.Contains(reason, "allocator.") && !strings.Contains(reason, "controller).") {
				panic("harness trouble: " + reason)
			}
			violate("panic", "a handler or status query panicked under concurrent delivery: "+reason)
		case strings.HasPrefix(reason, "deadlock"):
			violate("deadlock", "concurrent delivery deadlocks: "+reason)
		case reason != "":
			stats["run-"+strings.ReplaceAll(reason, " ", "-")]++
		default:
			// the serial replay runs natively (fresh instances, real mutexes)
			steps := s.Steps
			s.Kill()
			simrt.Active = nil
			simsync.LockOrder = nil
			res.Steps = steps
			finished.Wait()
			concCompare(w, inst, svcOps, poolOps, violate, stats)
		}
		if n := simrt.RaceErrors() - racesBefore; n > 0 {
			res.Violation = nil // the race is the root cause of whatever else went wrong
			violate("data-race", fmt.Sprintf("the race detector reported %d data race(s) during this run (report saved next to the replay file)", n))
			if res.Violation != nil {
				res.Violation.NoShrink = true
			}
		}
		res.Steps = s.Steps
		res.SimTime = simrt.Now()
		res.SchedHash = s.Hash
		res.NonTrivial = len(w.order) > 2
		res.Log = s.Log
		stats["handler-invocations"] += int64(len(w.order))
		for i := 1; i < len(w.order); i++ {
			if w.order[i] != w.order[i-1] {
				stats["probe.listener-lock-handed-to-a-different-worker"]++
			}
		}
		for k, v := range s.Released {
			stats["released."+k] += int64(v)
		}
		for _, f := range w.fetches {
			if f.hi > f.lo {
				stats["probe.status-query-overlapping-a-handler-in-flight"]++
			}
		}
		stats["status-queries"] += int64(len(w.fetches))
		s.Kill()
	}
	// Each bubble runs in a sub-test of its own: when the race detector has reported something,
	// synctest.Test ends the calling test with FailNow, which must not end the worker.
	curTconc.Run("run", func(t *testing.T) {
		defer func() {
			if r := recover(); r != nil {
				if m := fmt.Sprint(r); strings.Contains(m, "deadlock") && strings.Contains(m, "bubble") {
					if res.Steps == 0 {
						buf := make([]byte, 1<<16)
						buf = buf[:runtime.Stack(buf, true)]
						panic("the bubble ended before the simulation ran: " + m + "\n" + string(buf))
					}
					return
				}
				panic(r)
			}
		}()
		synctest.Test(t, bubble)
	})
	return res
}

//go:norace
func (w *concWorld) lockOrder(task, obj string) {
	if w.lname == "" || obj != w.lname {
		return
	}
	w.order = append(w.order, task)
	w.started++
}

//go:norace
func concWorker(w *concWorld, inst *concInst, ops []concOp, done *int) {
	for _, op := range ops {
		simrt.Yield("next event")
		inst.apply(op)
		w.completed++
	}
	*done = *done + 1
}

//go:norace
func concFetcher(w *concWorld, inst *concInst, pools []string, done *int) {
	for _, p := range pools {
		simrt.Yield("next query")
		lo := w.completed
		c := inst.ctrl.ips.CountersForPool(p)
		w.fetches = append(w.fetches, fetchRec{pool: p, lo: lo, hi: w.started, c: c})
	}
	*done = *done + 1
}

// concCompare replays the handler invocations serially in lock order on a fresh instance.
//
//go:norace
func concCompare(w *concWorld, inst *concInst, svcOps, poolOps []concOp, violate func(inv, msg string), stats map[string]int64) {
	ref := newConcInst()
	ref.apply(poolOps[0])
	ref.changes = nil
	next := map[string]int{}
	scripts := map[string][]concOp{"svcworker": svcOps, "poolworker": poolOps[1:]}
	// values each pool's counters pass through, per handler index (0 = before the first)
	vals := map[string][][]string{}
	record := func(k int) {
		for _, p := range []string{"p1", "p2", "p3"} {
			for len(vals[p]) <= k {
				vals[p] = append(vals[p], nil)
			}
			vals[p][k] = append(vals[p][k], fmt.Sprintf("%+v", ref.ctrl.ips.CountersForPool(p)))
		}
		for _, c := range ref.changes {
			p := c.pool
			for len(vals[p]) <= k {
				vals[p] = append(vals[p], nil)
			}
			vals[p][k] = append(vals[p][k], fmt.Sprintf("%+v", c.c))
		}
		ref.changes = nil
	}
	record(0)
	for k, task := range w.order {
		sc := scripts[task]
		if next[task] >= len(sc) {
			panic("harness trouble: lock order lists more handler invocations than the script of " + task)
		}
		ref.apply(sc[next[task]])
		next[task]++
		record(k + 1)
	}
	a, b := inst.ctrl.ips.VerifBookkeeping(), ref.ctrl.ips.VerifBookkeeping()
	if a != b {
		violate("state-differs-from-serial-replay", fmt.Sprintf("the allocator's state after concurrent delivery differs from running the same %d handler invocations one at a time in lock order (%v):\n--- concurrent\n%s--- serial\n%s", len(w.order), w.order, a, b))
		return
	}
	st := func(m map[string]*v1.Service) string {
		var out []string
		for k, s := range m {
			out = append(out, fmt.Sprintf("%s=%v", k, s.Status.LoadBalancer.Ingress))
		}
		sort.Strings(out)
		return strings.Join(out, " ")
	}
	if x, y := st(inst.store.m), st(ref.store.m); x != y {
		violate("statuses-differ-from-serial-replay", fmt.Sprintf("service statuses after concurrent delivery: %s; after the serial replay in lock order: %s", x, y))
		return
	}
	stats["probe.serial-replay-compared"]++
	for _, f := range w.fetches {
		ok := false
		fval := fmt.Sprintf("%+v", f.c)
		for k := f.lo; k <= f.hi && k < len(vals[f.pool]); k++ {
			for _, v := range vals[f.pool][k] {
				if v == fval {
					ok = true
				}
			}
		}
		// a pool unknown to the allocator reports zero counters
		if !ok && f.c == (allocator.PoolCounters{}) {
			ok = true
		}
		if !ok {
			violate("status-query-not-serializable", fmt.Sprintf("CountersForPool(%s) returned %s, which the serial replay never passes through between handler %d and %d", f.pool, fval, f.lo, f.hi))
			return
		}
	}
	_ = reflect.DeepEqual
}

func TestVerifGconc(t *testing.T) {
	if os.Getenv("VERIF_MODE") == "" {
		t.Skip("verification harness: driven by /verif/bin/verifcheck")
	}
	curTconc = t
	if code := runner.Main("gconc", gconcCtlRun); code != 0 {
		t.Fatalf("runner exit %d", code)
	}
}
