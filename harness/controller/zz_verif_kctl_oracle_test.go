//go:build verif

package main

import (
	"fmt"
	"hash/fnv"
	"math"
	"net"
	"net/netip"
	"os"
	"reflect"
	"sort"
	"strconv"
	"strings"
	"testing"
	"time"

	"go.universe.tf/metallb/internal/allocator"
	"go.universe.tf/metallb/internal/allocator/k8salloc"
	"go.universe.tf/metallb/internal/k8s/controllers"
	"go.universe.tf/metallb/internal/verifsim/runner"
	"go.universe.tf/metallb/internal/verifsim/simk8s"
	"go.universe.tf/metallb/internal/verifsim/simrt"
	"go.universe.tf/metallb/internal/verifsim/specalloc"
	v1 "k8s.io/api/core/v1"
)

func addrsEq(a, b []netip.Addr) bool { return specalloc.SameSet(a, b) }

// isCompletion: one held address became two, the old one kept.
func isCompletion(pre, post []netip.Addr) bool {
	return len(pre) == 1 && len(post) == 2 && (post[0] == pre[0] || post[1] == pre[0])
}

func (w *world) managed(svc *v1.Service) bool {
	// services filtered by load-balancer class are not MetalLB's
	if svc == nil {
		return false
	}
	if svc.Spec.LoadBalancerClass == nil {
		return w.k.lbClass == ""
	}
	return *svc.Spec.LoadBalancerClass == w.k.lbClass
}

// allocRelevantEqual: the part of the spec an assignment depends on did not change.
func allocRelevantEqual(a, b *v1.Service) bool {
	if a == nil || b == nil {
		return false
	}
	x, y := a.DeepCopy(), b.DeepCopy()
	x.Status, y.Status = v1.ServiceStatus{}, v1.ServiceStatus{}
	x.ResourceVersion, y.ResourceVersion = "", ""
	x.Generation, y.Generation = 0, 0
	delete(x.Annotations, specalloc.AnnAllocatedFrom)
	delete(y.Annotations, specalloc.AnnAllocatedFrom)
	if len(x.Annotations) == 0 {
		x.Annotations = nil
	}
	if len(y.Annotations) == 0 {
		y.Annotations = nil
	}
	return reflect.DeepEqual(x, y)
}

func (w *world) afterServiceHandler(inc *incarnation, name string, svc *v1.Service, prevSeen *v1.Service, pre specalloc.Holdings, res controllers.SyncState) {
	post := w.holdings(inc)
	env := w.env
	if env.On("C01") {
		if msg := post.ExclusivityViolation(); msg != "" {
			w.violate("C01", "recorded-exclusivity", "", "after SetBalancer("+name+"): "+msg)
		}
	}
	cfg := inc.cfgInForce
	if cfg != nil && env.On("C02") {
		for _, key := range post.Keys() {
			if addrsEq(pre[key].IPs, post[key].IPs) {
				continue
			}
			w.stat("probe.assignment-event")
			if key != name {
				w.violate("C02", "assignment-of-unprocessed-service", "", fmt.Sprintf("SetBalancer(%s) changed the addresses of %s from %v to %v", name, key, pre[key].IPs, post[key].IPs))
				continue
			}
			preOthers := specalloc.Holdings{}
			for k, v := range pre {
				if k != key {
					preOthers[k] = v
				}
			}
			msg := ""
			if svc != nil && addrsEq(statusAddrs(svc), post[key].IPs) {
				// the address recorded in the status shown to the handler is adopted, not chosen
				w.stat("probe.recorded-address-adopted")
				msg = cfg.CheckAssignmentStatic(key, post[key].Svc, post[key].IPs)
			} else if svc != nil && isCompletion(statusAddrs(svc), post[key].IPs) {
				// PreferDualStack completion: the pool is given by the address already held
				w.stat("probe.prefer-dual-completion")
				msg = cfg.CheckAssignmentStatic(key, post[key].Svc, post[key].IPs)
				if f := specalloc.FamiliesOf(post[key].Svc); msg == "" && !(f.Dual() && f.Policy == v1.IPFamilyPolicyPreferDualStack) {
					msg = "a second address was added to a service that is not PreferDualStack with dual-stack cluster IPs"
				}
			} else {
				msg = cfg.CheckAssignment(key, post[key].Svc, post[key].IPs, preOthers)
			}
			if msg != "" {
				sig := ""
				if o := cfg.OwnerOf(post[key].IPs); o != nil && o.NsSelectsNothing() {
					sig = "C02/ns-selector-matches-no-namespace"
				}
				w.violate("C02", "assignment", sig, fmt.Sprintf("SetBalancer(%s) assigned %v: %s [pools: %s]", name, post[key].IPs, msg, inc.cfgRaw))
			}
		}
	}
	if cfg != nil && env.On("C03") {
		w.checkFrame(inc, "SetBalancer("+name+")", name, svc, prevSeen, pre, post, cfg)
	}
	if env.On("C11") {
		w.checkCounters(inc, "SetBalancer("+name+")", post)
	}
}

func (w *world) afterPoolHandler(inc *incarnation, pre specalloc.Holdings, res controllers.SyncState) {
	post := w.holdings(inc)
	env := w.env
	if env.On("C01") {
		if msg := post.ExclusivityViolation(); msg != "" {
			w.violate("C01", "recorded-exclusivity", "", "after SetPools: "+msg)
		}
	}
	if env.On("C02") {
		for _, key := range post.Keys() {
			if !addrsEq(pre[key].IPs, post[key].IPs) {
				w.violate("C02", "assignment-by-pool-change", "", fmt.Sprintf("SetPools changed the addresses of %s from %v to %v", key, pre[key].IPs, post[key].IPs))
			}
		}
	}
	if env.On("C03") {
		w.checkFrame(inc, "SetPools", "", nil, nil, pre, post, inc.cfgInForce)
	}
	if env.On("C11") {
		w.checkCounters(inc, "SetPools", post)
	}
}

// checkFrame is C03's frame condition: whoever held still-admissible addresses before the handler
// and did not change its own request holds exactly them afterwards.
func (w *world) checkFrame(inc *incarnation, what, processed string, svc, prevSeen *v1.Service, pre, post specalloc.Holdings, cfg *specalloc.Config) {
	for _, key := range pre.Keys() {
		h := pre[key]
		if len(h.IPs) == 0 || h.Svc == nil {
			continue
		}
		cur := h.Svc
		if key == processed {
			continue // the processed service is judged on its recorded status when it is written (checkStatusStability)
		}
		if !w.managed(cur) {
			continue
		}
		if !cfg.StillAdmissible(key, cur, h.IPs, pre) {
			continue
		}
		w.stat("probe.frame-checked")
		got := post[key].IPs
		if addrsEq(got, h.IPs) {
			continue
		}
		// documented exception: PreferDualStack completion from the same pool
		f := specalloc.FamiliesOf(cur)
		if f.Dual() && f.Policy == v1.IPFamilyPolicyPreferDualStack && len(h.IPs) == 1 && len(got) == 2 && (got[0] == h.IPs[0] || got[1] == h.IPs[0]) {
			if o := cfg.OwnerOf(got); o != nil && o == cfg.OwnerOf(h.IPs) {
				w.stat("probe.prefer-dual-completion")
				continue
			}
		}
		w.violate("C03", "frame", "", fmt.Sprintf("%s changed the addresses of %s from %v to %v although they were still admissible (svc %s) [pools: %s]", what, key, h.IPs, got, specalloc.Describe(cur), inc.cfgRaw))
	}
}

// checkCounters is C11: reported counters equal the oracle's usage count, and the bookkeeping
// equals a fresh rebuild from the surviving assignments.
func (w *world) checkCounters(inc *incarnation, what string, post specalloc.Holdings) {
	cfg := inc.cfgInForce
	if cfg == nil {
		return
	}
	for _, name := range cfg.Names() {
		p := cfg.Pools[name]
		c := inc.ctrl.ips.CountersForPool(name)
		u4, u6 := p.Usage(post)
		t4, t6 := p.Usable()
		w.stat("probe.counters-checked")
		bad := ""
		switch {
		case c.AssignedIPv4 < 0 || c.AssignedIPv6 < 0 || c.AvailableIPv4 < 0 || c.AvailableIPv6 < 0:
			bad = "negative count"
		case c.AssignedIPv4 != u4 || c.AssignedIPv6 != u6:
			bad = fmt.Sprintf("assigned differs from distinct addresses in use (v4 %d, v6 %d)", u4, u6)
		case satAdd(c.AssignedIPv4, c.AvailableIPv4) != t4 && !(t4 == math.MaxInt64 && c.AvailableIPv4 == math.MaxInt64):
			bad = fmt.Sprintf("assigned+available IPv4 != usable %d", t4)
		case satAdd(c.AssignedIPv6, c.AvailableIPv6) != t6 && !(t6 == math.MaxInt64 && c.AvailableIPv6 >= math.MaxInt64-c.AssignedIPv6):
			bad = fmt.Sprintf("assigned+available IPv6 != usable %d", t6)
		}
		if bad != "" {
			sig := ""
			if hasBuggySlash32(p) {
				sig = "C11/poolcount-slash32-buggy"
			} else if hugeCombined(p) {
				sig = "C11/poolcount-huge-v6-combined"
			}
			w.violate("C11", "counters", sig, fmt.Sprintf("after %s pool %s reports %+v: %s [pools: %s]", what, name, c, bad, inc.cfgRaw))
		}
	}
	// bookkeeping = fresh rebuild
	fresh := allocator.New(func(string) {})
	fresh.SetPools(inc.ctrl.pools)
	ok := true
	for _, key := range post.Keys() {
		h := post[key]
		if h.Svc == nil {
			ok = false
			break
		}
		var ips []net.IP
		for _, s := range inc.ctrl.ips.VerifHoldings()[key].IPs {
			ips = append(ips, net.ParseIP(s))
		}
		if err := fresh.Assign(key, h.Svc, ips, k8salloc.Ports(h.Svc), SharingKey(h.Svc), k8salloc.BackendKey(h.Svc)); err != nil {
			ok = false
			w.stat("probe.rebuild-skipped-conflicting-holdings")
			break
		}
	}
	if ok && inc.ctrl.pools != nil {
		w.stat("probe.rebuild-compared")
		a, b := inc.ctrl.ips.VerifBookkeeping(), fresh.VerifBookkeeping()
		if a != b {
			w.violate("C11", "bookkeeping-vs-fresh-rebuild", "", fmt.Sprintf("after %s the allocator's bookkeeping differs from a fresh rebuild of the surviving assignments:\n--- controller\n%s--- fresh\n%s", what, a, b))
		}
	}
}

func satAdd(a, b int64) int64 {
	if a > math.MaxInt64-b {
		return math.MaxInt64
	}
	return a + b
}

func hasBuggySlash32(p *specalloc.Pool) bool {
	if !p.AvoidBuggy {
		return false
	}
	for _, r := range p.Ranges {
		if r.Lo == r.Hi && specalloc.IsBuggy(r.Lo) {
			return true
		}
	}
	return false
}

func hugeCombined(p *specalloc.Pool) bool {
	huge, n6 := false, 0
	for _, r := range p.Ranges {
		if !r.Lo.Is4() {
			n6++
			if !r.Size().IsInt64() || r.Size().Int64() >= 1<<62 {
				huge = true
			}
		}
	}
	return huge && n6 > 1
}

// checkStatusStability is C03 for the processed service, at the moment its status is written: the
// recorded addresses the handler was shown may only change if they are no longer admissible for
// the service as the handler sees it (documented exception: PreferDualStack completion).
func (w *world) checkStatusStability(key string, written *v1.Service) {
	inc := w.inc
	if !w.env.On("C03") || inc.cfgInForce == nil || inc.curSeen == nil || inc.curName != key {
		return
	}
	old, now := statusAddrs(inc.curSeen), statusAddrs(written)
	if len(old) == 0 || addrsEq(old, now) || !w.managed(inc.curSeen) {
		return
	}
	others := specalloc.Holdings{}
	for k, v := range inc.curPre {
		if k != key {
			others[k] = v
		}
	}
	if !inc.cfgInForce.StillAdmissible(key, inc.curSeen, old, others) {
		return
	}
	w.stat("probe.status-stability-checked")
	f := specalloc.FamiliesOf(inc.curSeen)
	if isCompletion(old, now) && f.Dual() && f.Policy == v1.IPFamilyPolicyPreferDualStack {
		if o := inc.cfgInForce.OwnerOf(now); o != nil && o == inc.cfgInForce.OwnerOf(old) {
			return
		}
	}
	w.violate("C03", "recorded-address-changed", "", fmt.Sprintf("the status of %s is rewritten from %v to %v although %v was still admissible (svc %s) [pools: %s]", key, old, now, old, specalloc.Describe(inc.curSeen), inc.cfgRaw))
}

// checkStealOnWrite is C06: a status write never gives a service an address that is recorded for
// another service whose record is still admissible (and has been since this incarnation started),
// unless the two may share it.
func (w *world) checkStealOnWrite(key string, svc *v1.Service) {
	inc := w.inc
	if !(w.env.On("C06") || w.env.On("C03")) || inc.cfgInForce == nil {
		return
	}
	prop, inv := "C06", "status-write-steals-recorded-address"
	if !w.env.On("C06") {
		// for C03 the same event means: the other service is about to lose a still-admissible address
		prop, inv = "C03", "recorded-address-given-to-another-service"
	}
	cur := w.getSvc(key)
	if cur == nil {
		return
	}
	have := map[netip.Addr]bool{}
	for _, a := range statusAddrs(cur) {
		have[a] = true
	}
	for _, a := range statusAddrs(svc) {
		if have[a] {
			continue
		}
		for _, ok := range w.svcKeys() {
			if ok == key || inc.lapsed[ok] {
				continue
			}
			other := w.getSvc(ok)
			holds := false
			for _, b := range statusAddrs(other) {
				if b == a {
					holds = true
				}
			}
			if !holds {
				continue
			}
			view := other
			if seen := inc.lastSeen[ok]; seen != nil {
				view = seen // judged on what this incarnation was told about the other service
				if !addrsEq(statusAddrs(seen), statusAddrs(other)) {
					continue // this incarnation itself moved the other service meanwhile
				}
			}
			if !w.managed(view) || view.Spec.Type != v1.ServiceTypeLoadBalancer {
				continue
			}
			if inc.cfgInForce.CheckAssignmentStatic(ok, view, statusAddrs(other)) != "" {
				continue // the other record is not admissible any more
			}
			if _, present, wellFormed := specalloc.RequestedIPs(view); present && !wellFormed {
				continue // malformed request: whether the record is still admissible is unspecified
			}
			// ... and with the REMAINING holders of its addresses (everybody recorded on them except
			// the writer): a record that the service's own spec change has put in conflict with a
			// co-tenant (ports, sharing key, backend) is not "still admissible"
			hold := specalloc.Holdings{}
			for _, k3 := range w.svcKeys() {
				if k3 == key || k3 == ok {
					continue
				}
				o3 := w.getSvc(k3)
				v3 := o3
				if seen := inc.lastSeen[k3]; seen != nil {
					v3 = seen
				}
				if a3 := statusAddrs(o3); len(a3) > 0 {
					hold[k3] = specalloc.Holding{IPs: a3, Svc: v3}
				}
			}
			if !inc.cfgInForce.StillAdmissible(ok, view, statusAddrs(other), hold) {
				w.stat("probe.steal-check-skipped-record-in-conflict-with-a-cotenant")
				continue
			}
			if containsAddr(inc.justifiedRelease[ok], a) {
				w.stat("probe.steal-check-skipped-justified-in-memory-release")
				continue
			}
			if !specalloc.MayShare(svc, view) {
				sig := ""
				if containsAddr(inc.staleDropped[ok], a) {
					sig = "C03/stale-cached-object-drops-allocation"
				} else if inc.curSeen != nil && len(statusAddrs(inc.curSeen)) > 0 {
					sig = "C06/restart-steal-by-service-whose-own-record-is-replaced"
					if completesDualStack(inc.curSeen, statusAddrs(inc.curSeen), statusAddrs(svc)) {
						sig = "C06/restart-steal-by-preferdualstack-completion"
					}
				}
				w.violate(prop, inv, sig, fmt.Sprintf("incarnation %d writes %s to %s while %s has it recorded (still admissible) and they may not share (%s / %s)", inc.id, a, key, ok, specalloc.Describe(svc), specalloc.Describe(view)))
			}
		}
	}
}

// completesDualStack: a PreferDualStack service whose single recorded address is kept and
// complemented by one more address.
func completesDualStack(s *v1.Service, before, after []netip.Addr) bool {
	f := specalloc.FamiliesOf(s)
	return f.Dual() && f.Policy == v1.IPFamilyPolicyPreferDualStack && len(before) == 1 && len(after) == 2 && containsAddr(after, before[0])
}

func containsAddr(l []netip.Addr, a netip.Addr) bool {
	for _, x := range l {
		if x == a {
			return true
		}
	}
	return false
}

// markLapsed remembers the services whose recorded addresses were inadmissible under some
// configuration this incarnation has had in force: losing such a record is legitimate.
func (w *world) markLapsed(inc *incarnation) {
	for _, key := range w.svcKeys() {
		s := w.getSvc(key)
		a := statusAddrs(s)
		if len(a) == 0 {
			continue
		}
		own := inc.cfgInForce.OwnerOf(a)
		// no pool owns the addresses any more, or the owning pool no longer admits the service
		// (namespaces / selectors re-targeted) as the API server and as this incarnation see it
		if own == nil || !own.Admits(s) || (inc.lastSeen[key] != nil && !own.Admits(inc.lastSeen[key])) {
			inc.lapsed[key] = true
		}
	}
}

// ---- quiescence ----

func (w *world) apiServices() []*v1.Service {
	var out []*v1.Service
	for _, k := range w.svcKeys() {
		out = append(out, w.getSvc(k))
	}
	return out
}

func (w *world) stateHash() uint64 {
	h := fnv.New64a()
	for _, s := range w.apiServices() {
		fmt.Fprintf(h, "%s/%s=%v;", s.Namespace, s.Name, ingress(s))
	}
	for _, k := range w.poolKeys() {
		p := w.getPool(k)
		fmt.Fprintf(h, "%s=%v;", p.Name, p.Spec.Addresses)
	}
	return h.Sum64()
}

func (w *world) atQuiescence() {
	inc := w.inc
	env := w.env
	w.quiesced++
	w.stateHashes = append(w.stateHashes, w.stateHash())
	w.logf("QUIESCENT: %s", w.describeState())
	svcs := w.apiServices()
	var mine []*v1.Service
	for _, s := range svcs {
		if w.managed(s) {
			mine = append(mine, s)
		}
	}
	stat := specalloc.StatusHoldings(mine)
	if len(stat) > 0 {
		w.nontrivial = true
	}
	if env.On("C18") {
		w.unrelatedEventCheck()
	}
	cfg := inc.cfgInForce
	if cfg == nil {
		// no configuration accepted yet (or the current one is rejected): the controller does not
		// process services at all, nothing is claimed about what users did to their specs meanwhile
		w.stat("probe.quiescence-without-configuration")
		return
	}
	if env.On("C01") {
		if msg := stat.ExclusivityViolation(); msg != "" {
			w.violate("C01", "status-exclusivity-at-quiescence", "", msg)
		}
	}
	mem := w.holdings(inc)
	if env.On("C02") {
		for _, key := range stat.Keys() {
			h := stat[key]
			if h.Svc.Spec.Type != v1.ServiceTypeLoadBalancer {
				w.violate("C02", "status-on-non-loadbalancer", "", fmt.Sprintf("%s is not a LoadBalancer but has status %v at quiescence", key, h.IPs))
				continue
			}
			if msg := cfg.CheckAssignmentStatic(key, h.Svc, h.IPs); msg != "" {
				sig := ""
				if o := cfg.OwnerOf(h.IPs); o != nil && o.NsSelectsNothing() {
					sig = "C02/ns-selector-matches-no-namespace"
				}
				w.violate("C02", "status-at-quiescence", sig, fmt.Sprintf("%s holds %v at quiescence: %s (svc %s) [pools: %s]", key, h.IPs, msg, specalloc.Describe(h.Svc), inc.cfgRaw))
				continue
			}
			if _, present, ok := specalloc.RequestedIPs(h.Svc); present && !ok {
				continue // malformed request: what the service keeps is unspecified, no claim
			}
			if o := cfg.OwnerOf(h.IPs); o != nil && h.Svc.Annotations[specalloc.AnnAllocatedFrom] != o.Name {
				w.violate("C02", "pool-annotation", "", fmt.Sprintf("%s holds %v of pool %s but the annotation says %q", key, h.IPs, o.Name, h.Svc.Annotations[specalloc.AnnAllocatedFrom]))
			}
		}
	}
	if env.On("C06") || env.On("C11") {
		// controller memory equals the statuses
		for _, s := range mine {
			key := s.Namespace + "/" + s.Name
			if !addrsEq(mem[key].IPs, stat[key].IPs) {
				p := "C06"
				if !env.On("C06") {
					p = "C11"
				}
				w.violate(p, "memory-vs-status", "", fmt.Sprintf("at quiescence the controller remembers %v for %s but its status says %v", mem[key].IPs, key, stat[key].IPs))
			}
		}
		for _, key := range mem.Keys() {
			if w.getSvc(key) == nil {
				p := "C06"
				if !env.On("C06") {
					p = "C11"
				}
				sig := ""
				if inc.droppedDelete[key] {
					sig = "C06/delete-dropped-before-initial-load"
				}
				w.violate(p, "ghost-reservation", sig, fmt.Sprintf("at quiescence the controller still holds %v for %s which no longer exists", mem[key].IPs, key))
			}
		}
	}
	if env.On("C06") && w.crashed && w.opsSinceCrash == 0 {
		for _, key := range sortedKeys(w.crashStatuses) {
			if inc.lapsed[key] {
				continue
			}
			s := w.getSvc(key)
			if s == nil || !w.managed(s) {
				continue
			}
			was := w.crashStatuses[key]
			crashHold := specalloc.Holdings{}
			for k, a := range w.crashStatuses {
				if o := w.getSvc(k); o != nil {
					crashHold[k] = specalloc.Holding{IPs: a, Svc: o}
				}
			}
			if cfg.StillAdmissible(key, s, was, crashHold) {
				w.stat("probe.recorded-address-checked-after-restart")
				if !addrsEq(stat[key].IPs, was) {
					f := specalloc.FamiliesOf(s)
					if f.Dual() && f.Policy == v1.IPFamilyPolicyPreferDualStack && len(was) == 1 && len(stat[key].IPs) == 2 {
						continue
					}
					sig := ""
					for _, ok := range sortedKeys(stat) {
						// the lost address went to a PreferDualStack service that kept its single recorded
						// address and was completed with this one during the first sync after the restart
						if ok == key || len(was) == 0 {
							continue
						}
						o := w.getSvc(ok)
						if o == nil || len(w.crashStatuses[ok]) == 0 {
							continue
						}
						took := false
						for _, a := range was {
							if containsAddr(stat[ok].IPs, a) && !containsAddr(w.crashStatuses[ok], a) {
								took = true
							}
						}
						switch {
						case !took:
						case len(w.crashStatuses[ok]) == 1 && completesDualStack(o, w.crashStatuses[ok], stat[ok].IPs):
							sig = "C06/restart-steal-by-preferdualstack-completion"
						case !addrsEq(w.crashStatuses[ok], stat[ok].IPs):
							// the other service had a record of its own which it did not keep, and now
							// holds the lost address: the listed single-pass first sync
							sig = "C06/restart-steal-by-service-whose-own-record-is-replaced"
						}
					}
					w.violate("C06", "recorded-address-lost-across-restart", sig, fmt.Sprintf("%s had %v recorded (still admissible) when the controller stopped, after restart it has %v", key, was, stat[key].IPs))
				}
			}
		}
		w.crashed = false
	}
	if env.On("C07") {
		for _, s := range mine {
			key := s.Namespace + "/" + s.Name
			if s.Spec.Type != v1.ServiceTypeLoadBalancer || len(stat[key].IPs) > 0 {
				continue
			}
			if !specalloc.FamiliesOf(s).Valid {
				continue
			}
			w.stat("probe.pending-service-at-quiescence")
			if wit := cfg.Admissible(key, s, stat, specalloc.MustShare); wit != "" {
				sig := w.starvationSignature(key, s, stat)
				w.violate("C07", "starvation", sig, fmt.Sprintf("%s is pending at quiescence although %s (svc %s; holdings %s) [pools: %s]", key, wit, specalloc.Describe(s), describeHoldings(stat), inc.cfgRaw))
			}
		}
	}
	if env.On("C11") {
		w.checkCounters(inc, "quiescence", mem)
	}
}

// unrelatedEventCheck is the controller half of C18: at quiescence the pool reconciler has seen
// every event, so reconciling once more - as any duplicate or unrelated event makes it do, under
// fresh listing and map orders - recomputes the configuration from the same snapshot; it must look
// unchanged: the pool handler is not invoked again and no re-sync of all Services is requested.
func (w *world) unrelatedEventCheck() {
	inc := w.inc
	if !inc.started || inc.poolHandlerCalls == 0 {
		return
	}
	poolW, svcW := inc.workers[1], inc.workers[0]
	keys := append(w.poolKeys(), "/"+nsNames[0])
	key := keys[w.pick(len(keys), "unrelated event for")]
	calls := inc.poolHandlerCalls
	poolW.q.Add(key)
	w.noInterleave = true
	for guard := 0; guard < 10 && poolW.q.Len() > 0; guard++ {
		w.workerStep(inc, poolW)
	}
	w.noInterleave = false
	w.stat("probe.unrelated-event-delivered-to-the-pool-reconciler")
	if inc.poolHandlerCalls != calls {
		w.violate("C18", "unrelated-event-looks-like-a-configuration-change", "", fmt.Sprintf("at quiescence a duplicate event for %s made the pool reconciler hand the configuration to the controller again (and request a re-sync of all Services) although no resource changed [pools: %s]", key, inc.cfgRaw))
	}
	_ = svcW
}

// livelockSignature names the cause of a livelock when it is a listed shape.
func (w *world) livelockSignature() string {
	for _, s := range w.apiServices() {
		f := specalloc.FamiliesOf(s)
		if f.Valid && !f.Dual() && f.Policy == v1.IPFamilyPolicyPreferDualStack && s.Spec.Type == v1.ServiceTypeLoadBalancer {
			return "preferdual-single-clusterip-flipflop"
		}
	}
	return ""
}

// starvationSignature attributes a starvation to a listed finding when the addresses that finding
// explains are the only admissible ones (with them marked unavailable nothing is admissible).
func (w *world) starvationSignature(key string, s *v1.Service, stat specalloc.Holdings) string {
	mem := w.holdings(w.inc)
	for _, k := range mem.Keys() {
		if w.getSvc(k) == nil && w.inc.droppedDelete[k] {
			return "C06/delete-dropped-before-initial-load"
		}
		if o := w.getSvc(k); o != nil && !w.managed(o) {
			return "C07/recreated-with-foreign-class-keeps-allocation"
		}
	}
	since := w.changedAt[key]
	try := func(sig string, excuse []netip.Addr) string {
		if len(excuse) == 0 {
			return ""
		}
		h := specalloc.Holdings{}
		for k, v := range stat {
			h[k] = v
		}
		h["<excused>"] = specalloc.PhantomHolder(excuse)
		if w.inc.cfgInForce.Admissible(key, s, h, specalloc.MustShare) == "" {
			return sig
		}
		return ""
	}
	var a []netip.Addr
	for _, e := range w.portDrops {
		if e.at > since {
			a = append(a, e.addrs...)
		}
	}
	if sig := try("C07/cotenant-port-release-not-reprocessed", a); sig != "" {
		return sig
	}
	a = nil
	for _, e := range w.failedReleases {
		if e.at > since {
			a = append(a, e.addrs...)
		}
	}
	if sig := try("C07/release-with-failed-status-write-not-reprocessed", a); sig != "" {
		return sig
	}
	return ""
}

func describeHoldings(h specalloc.Holdings) string {
	var out []string
	for _, k := range h.Keys() {
		out = append(out, fmt.Sprintf("%s=%v", k, h[k].IPs))
	}
	return strings.Join(out, " ")
}

func (w *world) describeState() string {
	var out []string
	for _, s := range w.apiServices() {
		out = append(out, fmt.Sprintf("%s/%s=%v", s.Namespace, s.Name, ingress(s)))
	}
	return strings.Join(out, " ") + " | pools: " + w.inc.cfgRaw
}

// resyncCheck is C03's second clause: re-processing a converged system writes at most once per
// service in the first pass and nothing in the second.
func (w *world) resyncCheck() {
	inc := w.inc
	if !inc.started || inc.cfgInForce == nil {
		return
	}
	// "converged" is the premise of this clause: a pending Service that is admissible (a starvation,
	// C07's to report - e.g. a listed finding) would legitimately be served by the forced re-sync
	stat := specalloc.StatusHoldings(w.apiServices())
	for _, s := range w.apiServices() {
		key := s.Namespace + "/" + s.Name
		if s.Spec.Type == v1.ServiceTypeLoadBalancer && w.managed(s) && len(stat[key].IPs) == 0 && specalloc.FamiliesOf(s).Valid &&
			inc.cfgInForce.Admissible(key, s, stat, specalloc.MayShare) != "" {
			w.stat("probe.resync-check-skipped-pending-admissible-service")
			return
		}
	}
	for pass := 1; pass <= 2; pass++ {
		w.writesBySvc = map[string]int{}
		w.appliedBySvc = map[string]int{}
		before := w.writes
		inc.workers[0].q.Add(reloadKey)
		if !w.settle(3000) {
			w.violate("C03", "resync-livelock", "", "forced re-sync of a quiescent system does not settle")
			return
		}
		w.stat("probe.forced-resync")
		if pass == 1 {
			for _, k := range sortedKeys(w.appliedBySvc) {
				if n := w.appliedBySvc[k]; n > 1 {
					w.violate("C03", "normalising-write-repeated", "", fmt.Sprintf("re-sync of a converged system wrote the status of %s %d times (attempts %d)", k, n, w.writesBySvc[k]))
				}
			}
		} else if w.writes != before {
			w.violate("C03", "resync-writes", "", fmt.Sprintf("second re-sync of a converged system performed %d status writes (%v)", w.writes-before, w.writesBySvc))
		}
	}
}

// ---- the run ----

func parseVariant(v string) map[string]string {
	m := map[string]string{}
	for _, kv := range strings.Split(v, ";") {
		if i := strings.IndexByte(kv, '='); i > 0 {
			m[kv[:i]] = kv[i+1:]
		} else if kv != "" {
			m[kv] = "1"
		}
	}
	return m
}

func kctlRun(env *runner.Env) *runner.Result {
	if parseVariant(env.Variant)["modeA"] != "" {
		return kctlModeARun(env)
	}
	w := &world{env: env, ch: env.Ch, srv: simk8s.NewServer(), stats: map[string]int64{}, writesBySvc: map[string]int{}, changedAt: map[string]int{}}
	vm := parseVariant(env.Variant)
	thorough := env.Tier == "thorough"
	k := &w.k
	k.crashAtOpp, k.crashAtWrite = -1, -1
	if vm["crashat"] != "" {
		// crash-point enumeration (C06): the first decision is the crash point; no other fault
		if j := w.ch.Intn(runner.EnumNone+1, "crash point"); j != runner.EnumNone {
			k.crashAtOpp = j
		}
		vm["faults"] = "off"
	}
	if s, ok := vm["crashAtWrite"]; ok {
		k.crashAtWrite, _ = strconv.Atoi(s)
	}
	// swarm knobs
	k.maxSvc = 2 + w.pick(5, "knob maxSvc")
	k.maxPools = 1 + w.pick(3, "knob maxPools")
	k.nOps = 6 + w.pick(35, "knob nOps")
	if thorough {
		k.maxSvc = 2 + w.pick(9, "knob maxSvc+")
		k.maxPools = 1 + w.pick(5, "knob maxPools+")
		k.nOps = 10 + w.pick(110, "knob nOps+")
	}
	k.mapOrder = w.ch.Bool(2, 3, "knob mapOrder")
	k.listPerm = w.ch.Bool(2, 3, "knob listPerm")
	k.lag = w.ch.Bool(2, 3, "knob lag")
	k.interleave = w.ch.Bool(1, 2, "knob interleave")
	faults := vm["faults"] != "off" && w.ch.Bool(1, 2, "knob faults")
	if vm["faults"] == "on" {
		faults = true
	}
	if faults {
		k.fWriteFail = w.ch.Bool(1, 2, "knob fWriteFail")
		k.fWriteLost = w.ch.Bool(1, 2, "knob fWriteLost")
		k.fListErr = w.ch.Bool(1, 3, "knob fListErr")
		k.fCrash = w.ch.Bool(1, 2, "knob fCrash")
		k.fResync = w.ch.Bool(1, 2, "knob fResync")
		k.crashBudget = 1 + w.pick(3, "knob crashBudget")
	}
	if w.ch.Bool(1, 8, "knob lbClass") {
		k.lbClass = "metallb"
	}
	k.huge = env.On("C11") && w.ch.Bool(1, 3, "knob huge")
	k.avoidKnown = vm["known"] != "only"
	if vm["crashat"] != "" && k.nOps > 25 {
		k.nOps = 25
	}
	w.faultsOn = faults
	w.opsLeft = k.nOps
	if k.mapOrder {
		simrt.MapOrder = simMapOrder(w)
	} else {
		simrt.MapOrder = nil
	}
	defer func() { simrt.MapOrder = nil }()
	w.logf("knobs %+v", *k)
	w.setupCluster()
	w.newIncarnation()
	maxSteps := 400 + 60*k.nOps
	for i := 0; i < maxSteps && w.viol == nil && !w.halt; i++ {
		if w.quiescent() && w.inc.started {
			w.atQuiescence()
			if w.viol != nil || w.halt {
				break
			}
			w.settling = false
			if w.opsLeft == 0 {
				break
			}
		}
		if !w.runProtected() {
			if w.opsLeft == 0 {
				break
			}
			w.settling = false
		}
	}
	// faults stop; the system must reach quiescence in a bounded number of steps
	if w.viol == nil && !w.halt {
		w.faultsOn = false
		w.opsLeft = 0
		for _, wk := range w.inc.workers {
			wk.q.Tick(1 << 62) // back-off timers: jump the clock
		}
		if !w.settle(5000) {
			msg := "the controller did not reach quiescence within 5000 scheduler steps after the last fault and the last operation: " + w.describeQueues()
			switch {
			case env.On("C06") && w.nInc > 1:
				w.violate("C06", "no-quiescence-after-faults-stop", w.livelockSignature(), msg)
			case env.On("C03"):
				w.violate("C03", "no-quiescence", w.livelockSignature(), msg)
			case env.On("C07"):
				w.violate("C07", "no-quiescence", w.livelockSignature(), msg)
			default:
				w.stat("run-did-not-quiesce") // inconclusive for this property's quiescence clauses
			}
		} else if w.inc.started {
			w.atQuiescence()
			if w.viol == nil && !w.halt && env.On("C03") {
				w.resyncCheck()
			}
		}
	}
	res := &runner.Result{EnumPoints: w.opp, Violation: w.viol, Known: w.known, Stats: w.stats, SimTime: w.now, Steps: w.steps, SchedHash: w.sched.h, StateHashes: w.stateHashes, NonTrivial: w.nontrivial, Log: w.log}
	w.stats["incarnations"] = int64(w.nInc)
	w.stats["status-writes"] = int64(w.writes)
	w.stats["quiescences"] = int64(w.quiesced)
	w.stats["map-ranges"] = int64(simrt.MapRanges)
	simrt.MapRanges = 0
	return res
}

func firstProp(env *runner.Env) string {
	var ps []string
	for p := range env.Props {
		ps = append(ps, p)
	}
	sort.Strings(ps)
	if len(ps) == 0 {
		return "C00"
	}
	return ps[0]
}

func (w *world) describeQueues() string {
	var out []string
	for _, wk := range w.inc.workers {
		out = append(out, fmt.Sprintf("%s: queued=%v idle=%v", wk.name, wk.q.Items(), wk.q.Idle()))
	}
	out = append(out, fmt.Sprintf("lagging=%v unsynced=%v", w.inc.cache.Lagging(), w.inc.cache.Unsynced()))
	return strings.Join(out, "; ")
}

func TestVerifKctl(t *testing.T) {
	if os.Getenv("VERIF_MODE") == "" {
		t.Skip("verification harness: driven by /verif/bin/verifcheck")
	}
	_ = time.Now
	if code := runner.Main("kctl", kctlRun); code != 0 {
		t.Fatalf("runner exit %d", code)
	}
}
