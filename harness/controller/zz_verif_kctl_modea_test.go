//go:build verif

package main

// K-ctl mode A (DESIGN.md §3.1, §9): the "explicit assign / allocate / release" histories of the
// quantifiers of C01, C02 and C11.  The real allocator is driven through its exported API
// (Assign, Allocate, AllocateFromPool, AllocateFromPoolForAdditionalFamily, Unassign, SetPools)
// in arbitrary seeded sequences - including sequences the controller itself never produces -
// under drawn map iteration orders, with the pool configuration produced by the real
// PoolReconciler / config.For from generated IPAddressPool and Namespace objects.  No controller,
// no faults: the nondeterminism here is the history and the map order.  After EVERY call:
// exclusivity of the recorded holdings (C01), membership / admission / pool-order clauses of what
// the call handed out (C02), counters, bookkeeping == fresh rebuild, nothing lost for the other
// services, and a released address is immediately assignable again (C11).

import (
	"context"
	"fmt"
	"net"
	"net/netip"

	v1 "k8s.io/api/core/v1"

	"go.universe.tf/metallb/internal/allocator"
	"go.universe.tf/metallb/internal/allocator/k8salloc"
	"go.universe.tf/metallb/internal/ipfamily"
	"go.universe.tf/metallb/internal/verifsim/runner"
	"go.universe.tf/metallb/internal/verifsim/simk8s"
	"go.universe.tf/metallb/internal/verifsim/simrt"
	"go.universe.tf/metallb/internal/verifsim/specalloc"
)

// syncPools brings the cache up to date and runs the real pool reconciler until its queue is empty
// (the service reconciler is never run in this mode).
func (w *world) modeASyncPools(inc *incarnation) {
	for _, k := range inc.cache.Unsynced() {
		inc.cache.Sync(k, identity)
	}
	for guard := 0; guard < 10000; guard++ {
		lag := inc.cache.Lagging()
		if len(lag) == 0 {
			break
		}
		inc.cache.ApplyNext(lag[0])
	}
	poolW := inc.workers[1]
	for guard := 0; guard < 100 && poolW.q.Len() > 0; guard++ {
		key := poolW.q.Get()
		_, err := inc.poolRec.Reconcile(context.Background(), reqFor(key))
		poolW.q.Forget(key)
		poolW.q.Done(key)
		if err != nil {
			poolW.q.Add(key)
		}
	}
	// the other queues are not served in this mode
	for _, i := range []int{0, 2} {
		q := inc.workers[i].q
		for q.Len() > 0 {
			k := q.Get()
			q.Done(k)
			q.Forget(k)
		}
	}
}

func toNetIPs(as []netip.Addr) []net.IP {
	var out []net.IP
	for _, a := range as {
		out = append(out, net.ParseIP(a.String()))
	}
	return out
}

func fromNetIPs(ips []net.IP) []netip.Addr {
	var out []netip.Addr
	for _, ip := range ips {
		if a, ok := netip.AddrFromSlice(ip); ok {
			out = append(out, a.Unmap())
		}
	}
	return out
}

// stripRequests removes what only the controller interprets (explicit address / pool requests):
// the allocator's Allocate is the automatic path.
func stripRequests(svc *v1.Service) *v1.Service {
	s := svc.DeepCopy()
	s.Spec.LoadBalancerIP = ""
	for _, k := range []string{"metallb.io/loadBalancerIPs", "metallb.universe.tf/loadBalancerIPs", "metallb.io/address-pool", "metallb.universe.tf/address-pool"} {
		delete(s.Annotations, k)
	}
	return s
}

// membership is the part of C02 every hand-out of the allocator must satisfy whatever API was used.
func (w *world) modeAMembership(cfg *specalloc.Config, key string, svc *v1.Service, ips []netip.Addr) (string, string) {
	var owner *specalloc.Pool
	for _, a := range ips {
		ps := cfg.PoolsOf(a)
		if len(ps) != 1 {
			return fmt.Sprintf("address %s lies in %d usable pools %v (must be exactly one)", a, len(ps), ps), ""
		}
		if owner != nil && owner.Name != ps[0] {
			return fmt.Sprintf("addresses %v come from two pools (%s, %s)", ips, owner.Name, ps[0]), ""
		}
		owner = cfg.Pools[ps[0]]
	}
	if owner == nil {
		return "no address", ""
	}
	if !owner.Admits(svc) {
		sig := ""
		if owner.NsSelectsNothing() {
			sig = "C02/ns-selector-matches-no-namespace"
		}
		return fmt.Sprintf("pool %s does not admit the service %s", owner.Name, specalloc.Describe(svc)), sig
	}
	n4, n6 := 0, 0
	for _, a := range ips {
		if a.Is4() {
			n4++
		} else {
			n6++
		}
	}
	if n4 > 1 || n6 > 1 {
		return fmt.Sprintf("two addresses of one family %v", ips), ""
	}
	return "", ""
}

func kctlModeARun(env *runner.Env) *runner.Result {
	w := &world{env: env, ch: env.Ch, srv: simk8s.NewServer(), stats: map[string]int64{}, writesBySvc: map[string]int{}, changedAt: map[string]int{}}
	vm := parseVariant(env.Variant)
	k := &w.k
	k.crashAtOpp, k.crashAtWrite = -1, -1
	k.maxSvc = 2 + w.pick(6, "knob maxSvc")
	k.maxPools = 1 + w.pick(3, "knob maxPools")
	k.nOps = 8 + w.pick(50, "knob nOps")
	if env.Tier == "thorough" {
		k.maxSvc = 2 + w.pick(9, "knob maxSvc+")
		k.maxPools = 1 + w.pick(5, "knob maxPools+")
		k.nOps = 10 + w.pick(150, "knob nOps+")
	}
	k.mapOrder = w.ch.Bool(2, 3, "knob mapOrder")
	k.huge = env.On("C11") && w.ch.Bool(1, 3, "knob huge")
	k.avoidKnown = vm["known"] != "only"
	if k.mapOrder {
		simrt.MapOrder = simMapOrder(w)
	}
	defer func() { simrt.MapOrder = nil }()
	w.opsLeft = k.nOps
	w.logf("mode A knobs %+v", *k)
	w.setupCluster()
	w.newIncarnation()
	inc := w.inc
	inc.started = true
	w.modeASyncPools(inc)
	al := inc.ctrl.ips
	probeN := 0

	// one allocator call and the checks after it
	after := func(what, key string, pre specalloc.Holdings, setPools bool) specalloc.Holdings {
		post := w.holdings(inc)
		w.nontrivial = true
		w.steps++
		w.sched.add(what)
		if env.On("C01") {
			if msg := post.ExclusivityViolation(); msg != "" {
				w.violate("C01", "allocator-holdings", "", "after "+what+": "+msg)
			}
		}
		if env.On("C11") {
			if !setPools {
				for _, ok := range pre.Keys() {
					if ok == key {
						continue
					}
					if !addrsEq(pre[ok].IPs, post[ok].IPs) {
						w.violate("C11", "reservation-of-another-service-changed", "", fmt.Sprintf("after %s the allocator's record for %s changed from %v to %v", what, ok, pre[ok].IPs, post[ok].IPs))
					}
				}
			} else if inc.cfgInForce != nil {
				for _, ok := range pre.Keys() {
					own := inc.cfgInForce.OwnerOf(pre[ok].IPs)
					switch {
					case own != nil && !addrsEq(pre[ok].IPs, post[ok].IPs):
						w.violate("C11", "reservation-lost-on-pool-change", "", fmt.Sprintf("after %s the allocator's record for %s changed from %v to %v although pool %s still owns the addresses", what, ok, pre[ok].IPs, post[ok].IPs, own.Name))
					case own == nil && len(post[ok].IPs) > 0 && len(inc.cfgInForce.PoolsOf(pre[ok].IPs[0])) == 0:
						w.violate("C11", "ghost-reservation-after-pool-change", "", fmt.Sprintf("after %s the allocator still holds %v for %s although no pool contains it", what, post[ok].IPs, ok))
					}
				}
			}
			w.checkCounters(inc, what, post)
		}
		if env.On("C02") && inc.cfgInForce != nil {
			// the recorded pool names the owning pool
			vh := al.VerifHoldings()
			for _, ok := range post.Keys() {
				if own := inc.cfgInForce.OwnerOf(post[ok].IPs); own != nil && vh[ok].Pool != own.Name {
					w.violate("C02", "recorded-pool-is-not-the-owner", "", fmt.Sprintf("after %s the allocator records pool %q for %s holding %v, which pool %s owns", what, vh[ok].Pool, ok, post[ok].IPs, own.Name))
				}
			}
		}
		return post
	}

	pickSvc := func() (string, *v1.Service) {
		keys := w.svcKeys()
		if len(keys) == 0 {
			return "", nil
		}
		key := keys[w.pick(len(keys), "service")]
		return key, w.getSvc(key)
	}
	args := func(svc *v1.Service) ([]allocator.Port, string, string) {
		return k8salloc.Ports(svc), SharingKey(svc), k8salloc.BackendKey(svc)
	}
	record := func(key string, svc *v1.Service) { inc.lastSeen[key] = svc.DeepCopy() }

	// start from a cluster that has something to allocate from
	w.opCreatePool()
	w.opCreateService()
	w.opCreateService()
	w.modeASyncPools(inc)
	for step := 0; step < k.nOps && w.viol == nil && !w.halt; step++ {
		cfg := inc.cfgInForce
		switch r := w.pick(20, "mode A op"); {
		case r < 3:
			if !w.opCreateService() {
				w.opUpdateService()
			}
			w.modeASyncPools(inc)
		case r < 5:
			w.opUpdateService()
			w.modeASyncPools(inc)
		case r < 8:
			pre := w.holdings(inc)
			ok := false
			switch w.pick(6, "pool op") {
			case 0, 1:
				ok = w.opCreatePool()
			case 2, 3:
				ok = w.opUpdatePool()
			case 4:
				ok = w.opDeletePool()
				if !ok {
					ok = w.opRenamePool()
				}
			case 5:
				ok = w.opRelabelNamespace()
			}
			if !ok {
				continue
			}
			w.modeASyncPools(inc)
			after("SetPools", "", pre, true)
		case r < 12: // automatic allocation
			key, svc := pickSvc()
			if svc == nil || cfg == nil {
				continue
			}
			s := stripRequests(svc)
			fam, err := ipfamily.ForService(s)
			if err != nil {
				continue
			}
			pre := w.holdings(inc)
			ports, sk, bk := args(s)
			_, had := pre[key]
			ips, err := al.Allocate(key, s, fam, ports, sk, bk)
			w.logf("Allocate(%s %s) -> %v %v", key, specalloc.Describe(s), ips, err)
			if err == nil {
				record(key, s)
			}
			post := after("Allocate("+key+")", key, pre, false)
			if err == nil && env.On("C02") {
				got := fromNetIPs(ips)
				if !addrsEq(got, post[key].IPs) {
					w.violate("C02", "returned-differs-from-recorded", "", fmt.Sprintf("Allocate(%s) returned %v but the allocator records %v", key, got, post[key].IPs))
				}
				if !had {
					w.stat("probe.modeA-fresh-automatic-allocation")
					if msg := cfg.CheckAssignment(key, s, got, pre); msg != "" {
						sig := ""
						if o := cfg.OwnerOf(got); o != nil && o.NsSelectsNothing() {
							sig = "C02/ns-selector-matches-no-namespace"
						}
						w.violate("C02", "automatic-allocation", sig, fmt.Sprintf("Allocate(%s) handed out %v: %s [pools: %s]", key, got, msg, inc.cfgRaw))
					}
				} else if msg, sig := w.modeAMembership(cfg, key, s, got); msg != "" {
					w.violate("C02", "membership", sig, fmt.Sprintf("Allocate(%s) kept %v: %s [pools: %s]", key, got, msg, inc.cfgRaw))
				}
			}
		case r < 14: // allocation from a named pool
			key, svc := pickSvc()
			if svc == nil || cfg == nil || len(cfg.Names()) == 0 {
				continue
			}
			s := stripRequests(svc)
			fam, err := ipfamily.ForService(s)
			if err != nil {
				continue
			}
			names := cfg.Names()
			pool := names[w.pick(len(names), "pool")]
			pre := w.holdings(inc)
			ports, sk, bk := args(s)
			_, had := pre[key]
			ips, err := al.AllocateFromPool(key, s, fam, pool, ports, sk, bk)
			w.logf("AllocateFromPool(%s, %s) -> %v %v", key, pool, ips, err)
			if err == nil {
				record(key, s)
			}
			after("AllocateFromPool("+key+","+pool+")", key, pre, false)
			if err == nil && env.On("C02") {
				got := fromNetIPs(ips)
				msg, sig := w.modeAMembership(cfg, key, s, got)
				if msg == "" && !had {
					if o := cfg.OwnerOf(got); o == nil || o.Name != pool {
						msg = fmt.Sprintf("the addresses are not owned by the requested pool %s", pool)
					}
				}
				if msg != "" {
					w.violate("C02", "allocation-from-pool", sig, fmt.Sprintf("AllocateFromPool(%s, %s) handed out %v: %s [pools: %s]", key, pool, got, msg, inc.cfgRaw))
				}
			}
		case r < 17: // explicit assignment
			key, svc := pickSvc()
			if svc == nil || cfg == nil {
				continue
			}
			s := stripRequests(svc)
			pre := w.holdings(inc)
			var want []netip.Addr
			all := w.poolAddrs(64)
			held := []netip.Addr{}
			for _, hk := range pre.Keys() {
				held = append(held, pre[hk].IPs...)
			}
			switch w.pick(14, "assign what") / 2 {
			case 0:
				want = append(want, pre[key].IPs...)
				if w.pick(2, "or outside") == 0 && len(want) > 0 {
					break
				}
				want = []netip.Addr{netip.MustParseAddr("192.0.2.77")}
			case 1, 2:
				if len(all) > 0 {
					want = []netip.Addr{all[w.pick(len(all), "addr")]}
				}
			case 3, 4:
				if len(held) > 0 {
					want = []netip.Addr{held[w.pick(len(held), "held addr")]}
				}
			case 5:
				if len(all) > 1 {
					a, b := all[w.pick(len(all), "addr")], all[w.pick(len(all), "addr2")]
					want = []netip.Addr{a, b}
				}
			case 6:
				if len(all) > 0 && len(held) > 0 {
					want = []netip.Addr{held[w.pick(len(held), "held addr")], all[w.pick(len(all), "addr")]}
				}
			}
			if len(want) == 0 {
				continue
			}
			ports, sk, bk := args(s)
			err := al.Assign(key, s, toNetIPs(want), ports, sk, bk)
			w.logf("Assign(%s %s, %v) -> %v", key, specalloc.Describe(s), want, err)
			if err == nil {
				record(key, s)
			}
			post := after(fmt.Sprintf("Assign(%s,%v)", key, want), key, pre, false)
			if env.On("C02") {
				if err == nil {
					if !addrsEq(want, post[key].IPs) {
						w.violate("C02", "assigned-differs-from-requested", "", fmt.Sprintf("Assign(%s, %v) succeeded but the allocator records %v", key, want, post[key].IPs))
					}
					if msg, sig := w.modeAMembership(cfg, key, s, want); msg != "" {
						w.violate("C02", "membership", sig, fmt.Sprintf("Assign(%s, %v) succeeded: %s [pools: %s]", key, want, msg, inc.cfgRaw))
					}
				} else if !addrsEq(pre[key].IPs, post[key].IPs) {
					w.violate("C02", "refused-assignment-changed-the-record", "", fmt.Sprintf("Assign(%s, %v) was refused (%v) but the record of the service changed from %v to %v", key, want, err, pre[key].IPs, post[key].IPs))
				}
			}
		case r < 18: // second family for a PreferDualStack service
			key, svc := pickSvc()
			if svc == nil || cfg == nil {
				continue
			}
			pre := w.holdings(inc)
			if len(pre[key].IPs) != 1 {
				continue
			}
			s := stripRequests(svc)
			pool := al.Pool(key)
			ports, sk, bk := args(s)
			ip, err := al.AllocateFromPoolForAdditionalFamily(key, s, net.ParseIP(pre[key].IPs[0].String()), pool, ports, sk, bk)
			w.logf("AllocateFromPoolForAdditionalFamily(%s, %s) -> %v %v", key, pool, ip, err)
			if err == nil {
				record(key, s)
			}
			post := after("AllocateFromPoolForAdditionalFamily("+key+")", key, pre, false)
			if err == nil && env.On("C02") {
				if msg, sig := w.modeAMembership(cfg, key, s, post[key].IPs); msg != "" {
					w.violate("C02", "membership", sig, fmt.Sprintf("AllocateFromPoolForAdditionalFamily(%s) left %v: %s [pools: %s]", key, post[key].IPs, msg, inc.cfgRaw))
				}
				if len(post[key].IPs) != 2 || !containsAddr(post[key].IPs, pre[key].IPs[0]) {
					w.violate("C02", "additional-family", "", fmt.Sprintf("AllocateFromPoolForAdditionalFamily(%s) succeeded but the record went from %v to %v", key, pre[key].IPs, post[key].IPs))
				}
			}
		default: // release, then the released addresses must be assignable at once
			keys := w.holdings(inc).Keys()
			if len(keys) == 0 {
				continue
			}
			key := keys[w.pick(len(keys), "release whom")]
			pre := w.holdings(inc)
			released := pre[key]
			al.Unassign(key)
			delete(inc.lastSeen, key)
			w.logf("Unassign(%s) (held %v)", key, released.IPs)
			post := after("Unassign("+key+")", key, pre, false)
			if len(post[key].IPs) != 0 {
				w.violate("C11", "release-did-not-release", "", fmt.Sprintf("after Unassign(%s) the allocator still records %v for it", key, post[key].IPs))
			}
			if !env.On("C11") || cfg == nil || released.Svc == nil || w.viol != nil || w.halt {
				continue
			}
			for _, a := range released.IPs {
				if len(post.HoldersOf(a)) > 0 {
					continue // still shared by somebody else
				}
				ps := cfg.PoolsOf(a)
				if len(ps) != 1 {
					continue
				}
				probeN++
				pk := fmt.Sprintf("%s/probe%d", released.Svc.Namespace, probeN)
				ps0 := released.Svc.DeepCopy()
				ps0.Name = fmt.Sprintf("probe%d", probeN)
				delete(ps0.Annotations, "metallb.io/allow-shared-ip")
				delete(ps0.Annotations, "metallb.universe.tf/allow-shared-ip")
				if !cfg.Pools[ps[0]].Admits(ps0) {
					continue
				}
				before := al.VerifBookkeeping()
				ports, sk, bk := args(ps0)
				err := al.Assign(pk, ps0, toNetIPs([]netip.Addr{a}), ports, sk, bk)
				w.stat("probe.modeA-release-probe")
				if err != nil {
					w.violate("C11", "released-address-not-available", "", fmt.Sprintf("%s was released by %s and nobody else holds it, but assigning it to a fresh non-sharing service of the same namespace and labels is refused: %v [pools: %s]", a, key, err, inc.cfgRaw))
					break
				}
				al.Unassign(pk)
				if now := al.VerifBookkeeping(); now != before {
					w.violate("C11", "bookkeeping-not-restored", "", fmt.Sprintf("assigning and releasing %s once more leaves different bookkeeping:\n--- before\n%s--- after\n%s", a, before, now))
				}
			}
		}
	}
	res := &runner.Result{Violation: w.viol, Known: w.known, Stats: w.stats, Steps: w.steps, SchedHash: w.sched.h, NonTrivial: w.nontrivial, Log: w.log}
	w.stats["map-ranges"] = int64(simrt.MapRanges)
	simrt.MapRanges = 0
	return res
}
