//go:build verif

package layer2

import (
	"fmt"
	"net"
	"regexp"
	"sort"

	"github.com/go-kit/log"
)

// VerifInterfaces is the interface list VerifNew gives the announcer (K engines).
var VerifInterfaces = []string{"eth0", "eth1"}

// VerifNew builds an Announce without goroutines and without touching the OS: no interface scan,
// no responders, no gratuitous loop.  Same signature as New (substituted by simbuild R4).
func VerifNew(l log.Logger, excludeRegexp *regexp.Regexp) (*Announce, error) {
	return &Announce{
		logger:         l,
		nodeInterfaces: append([]string{}, VerifInterfaces...),
		arps:           map[int]*arpResponder{},
		ndps:           map[int]*ndpResponder{},
		ips:            map[string][]IPAdvertisement{},
		ipRefcnt:       map[string]int{},
		spamCh:         make(chan IPAdvertisement, 1<<16),
		excludeRegexp:  excludeRegexp,
	}, nil
}

// VerifDrainSpam empties the gratuitous-announcement channel (nobody reads it in K engines).
func (a *Announce) VerifDrainSpam() int {
	n := 0
	for {
		select {
		case <-a.spamCh:
			n++
		default:
			return n
		}
	}
}

// VerifAnnounced renders what the announcer holds: service -> sorted "ip@scope".
func (a *Announce) VerifAnnounced() map[string][]string {
	a.RLock()
	defer a.RUnlock()
	out := map[string][]string{}
	for name, advs := range a.ips {
		var l []string
		for _, adv := range advs {
			scope := "all"
			if !adv.allInterfaces {
				ifs := adv.interfaces.UnsortedList()
				sort.Strings(ifs)
				scope = fmt.Sprint(ifs)
			}
			l = append(l, adv.ip.String()+"@"+scope)
		}
		sort.Strings(l)
		out[name] = l
	}
	return out
}

// VerifRefcnt returns a copy of the reference counts.
func (a *Announce) VerifRefcnt() map[string]int {
	a.RLock()
	defer a.RUnlock()
	out := map[string]int{}
	for k, v := range a.ipRefcnt {
		out[k] = v
	}
	return out
}

// VerifAnswers is the responder decision for (ip, interface).
func (a *Announce) VerifAnswers(ip net.IP, intf string) bool {
	return a.shouldAnnounce(ip, intf) == dropReasonNone
}
