//go:build verif

package layer2

// G-l2: the layer-2 announcer, its ARP responders and the gratuitous loop under the goroutine
// engine (DESIGN.md §3.7).  Real: Announce.SetBalancer/DeleteBalancer/shouldAnnounce/gratuitous/
// spamLoop, one arpResponder.run goroutine per simulated interface over arp.New(ifi, simulated
// PacketConn).  Simulated: the raw sockets (simarp), the LAN (a task injecting frames), the OS
// interface scan (the responders are created by the harness).  NDP: decision function and
// reference counts only (ndp.Conn cannot be constructed without a real ICMPv6 socket).

import (
	"bytes"
	"errors"
	"fmt"
	"net"
	"os"
	"sort"
	"strings"
	"testing"
	"testing/synctest"
	"time"

	"github.com/anishathalye/porcupine"
	"github.com/go-kit/log"
	"github.com/mdlayher/arp"
	"github.com/mdlayher/ethernet"
	"go.universe.tf/metallb/internal/verifsim/choice"
	"go.universe.tf/metallb/internal/verifsim/runner"
	"go.universe.tf/metallb/internal/verifsim/simarp"
	"go.universe.tf/metallb/internal/verifsim/simrt"
	"k8s.io/apimachinery/pkg/util/sets"
)

var curTl2 *testing.T

type l2op struct {
	Kind  string // set, delete, query
	Name  string
	IP    string
	All   bool
	Ifs   []string
	Intf  string
}

type l2entry struct {
	ip  string
	all bool
	ifs []string
}

// sequential specification: service -> advertisements
type l2state map[string][]l2entry

func (s l2state) clone() l2state {
	c := l2state{}
	for k, v := range s {
		c[k] = append([]l2entry(nil), v...)
	}
	return c
}

func covers(e l2entry, intf string) bool {
	if e.all {
		return true
	}
	for _, i := range e.ifs {
		if i == intf {
			return true
		}
	}
	return false
}

func (s l2state) answers(ip, intf string) bool {
	for _, es := range s {
		for _, e := range es {
			if e.ip == ip && covers(e, intf) {
				return true
			}
		}
	}
	return false
}

func (s l2state) holders(ip string) int {
	n := 0
	for _, es := range s {
		for _, e := range es {
			if e.ip == ip {
				n++
			}
		}
	}
	return n
}

func (s l2state) key() string {
	var ks []string
	for k, es := range s {
		for _, e := range es {
			ks = append(ks, fmt.Sprintf("%s:%s:%v:%v", k, e.ip, e.all, e.ifs))
		}
	}
	sort.Strings(ks)
	return strings.Join(ks, ";")
}

var l2model = porcupine.Model{
	Init: func() interface{} { return l2state{} },
	Step: func(state, input, output interface{}) (bool, interface{}) {
		st := state.(l2state)
		op := input.(l2op)
		switch op.Kind {
		case "set":
			n := st.clone()
			e := l2entry{op.IP, op.All, op.Ifs}
			replaced := false
			for i := range n[op.Name] {
				if n[op.Name][i].ip == op.IP {
					n[op.Name][i], replaced = e, true
				}
			}
			if !replaced {
				n[op.Name] = append(n[op.Name], e)
			}
			return true, n
		case "delete":
			n := st.clone()
			delete(n, op.Name)
			return true, n
		case "query":
			return st.answers(op.IP, op.Intf) == output.(bool), st
		}
		return false, st
	},
	Equal: func(a, b interface{}) bool { return a.(l2state).key() == b.(l2state).key() },
	DescribeOperation: func(input, output interface{}) string {
		return fmt.Sprintf("%+v -> %v", input, output)
	},
}

type mayHold struct {
	inflight int
	lastRet  int64
}

type l2world struct {
	env   *runner.Env
	ch    *choice.Chooser
	s     *simrt.Sched
	stats map[string]int64
	viol  *runner.Violation
	a     *Announce
	ops   []porcupine.Operation
	seq   int64
	may   map[string]map[string]*mayHold // ip -> service -> may the service hold the address? (a Delete removes, at its return, what had been completely set before it was invoked)
	active int
	done  int
	ntasks int
	faults bool
	frameID int
}

func (w *l2world) pick(n int, l string) int { return w.ch.Intn(n, l) }
func (w *l2world) stamp() int64 { w.seq++; return w.seq }
func (w *l2world) violate(inv, msg string) {
	if !w.env.On("C13") && w.env.On("C20") && w.viol == nil && (inv == "operation-blocked" || inv == "panic-in-metallb") {
		// C20 batch over this engine: only the concurrency clauses (no deadlock, no panic)
		w.viol = &runner.Violation{Property: "C20", Invariant: inv, Message: msg}
		w.s.Event("VIOLATION C20/%s: %s", inv, msg)
	}
	if w.env.On("C13") && w.viol == nil {
		w.viol = &runner.Violation{Property: "C13", Invariant: inv, Message: msg}
		w.s.Event("VIOLATION C13/%s: %s", inv, msg)
	}
}

var l2IPs = []string{"10.20.30.1", "10.20.30.2", "fc00::1"}
var l2Ifs = []string{"eth0", "eth1"}
var l2Names = []string{"ns/a", "ns/b", "ns/c", "ns/d"}
var nodeMAC = map[string]net.HardwareAddr{"eth0": {2, 0, 0, 0, 0, 1}, "eth1": {2, 0, 0, 0, 0, 2}}

func (w *l2world) updater(id int) {
	n := 2 + w.pick(8, "updater ops")
	for i := 0; i < n && w.viol == nil; i++ {
		switch w.pick(4, "pause") {
		case 1:
			simrt.Sleep(time.Duration(1+w.pick(1500, "ms")) * time.Millisecond)
		case 2:
			simrt.Sleep(time.Duration(1+w.pick(7, "s")) * time.Second)
		case 3:
			simrt.Yield("updater")
		}
		name := l2Names[w.pick(len(l2Names), "service")]
		if w.pick(3, "op kind") == 0 {
			op := l2op{Kind: "delete", Name: name}
			call := w.stamp()
			w.active++
			w.s.Event("updater%d: DeleteBalancer(%s)", id, name)
			w.a.DeleteBalancer(name)
			ret := w.stamp()
			w.active--
			for _, m := range w.may {
				if h, ok := m[name]; ok && h.inflight == 0 && h.lastRet < call {
					delete(m, name)
				}
			}
			w.ops = append(w.ops, porcupine.Operation{ClientId: id, Input: op, Call: call, Output: true, Return: ret})
			w.checkRefcounts("DeleteBalancer(" + name + ")")
			continue
		}
		ip := l2IPs[w.pick(len(l2IPs), "ip")]
		op := l2op{Kind: "set", Name: name, IP: ip}
		ifs := sets.Set[string]{}
		switch w.pick(4, "scope") {
		case 0:
			op.All = true
		case 1:
			op.Ifs = []string{"eth0"}
		case 2:
			op.Ifs = []string{"eth1"}
		case 3:
			op.Ifs = []string{"eth0", "eth1"}
		}
		ifs.Insert(op.Ifs...)
		if w.may[ip] == nil {
			w.may[ip] = map[string]*mayHold{}
		}
		call := w.stamp()
		if w.may[ip][name] == nil {
			w.may[ip][name] = &mayHold{}
		}
		hold := w.may[ip][name]
		hold.inflight++
		w.active++
		w.s.Event("updater%d: SetBalancer(%s, %s, all=%v ifs=%v)", id, name, ip, op.All, op.Ifs)
		w.a.SetBalancer(name, NewIPAdvertisement(net.ParseIP(ip), op.All, ifs))
		ret := w.stamp()
		w.active--
		hold.inflight--
		hold.lastRet = ret
		if w.may[ip][name] == nil {
			w.may[ip][name] = hold // a concurrent withdrawal returned meanwhile: this announcement may follow it
		}
		w.ops = append(w.ops, porcupine.Operation{ClientId: id, Input: op, Call: call, Output: true, Return: ret})
		w.checkRefcounts("SetBalancer(" + name + ")")
	}
	w.done++
}

// checkRefcounts: when no update is in flight, the reference count of every address equals the
// number of services holding it (sequential replay of the completed operations).
func (w *l2world) checkRefcounts(after string) {
	if w.inflight() > 0 {
		return
	}
	st := l2state{}
	var ops []porcupine.Operation
	for _, o := range w.ops {
		if o.Input.(l2op).Kind != "query" {
			ops = append(ops, o)
		}
	}
	sort.Slice(ops, func(i, j int) bool { return ops[i].Call < ops[j].Call })
	// sequential replay is only meaningful when no two updates overlapped; overlapping histories are
	// left to the linearizability check
	var maxRet int64
	for _, o := range ops {
		if o.Call < maxRet {
			return
		}
		if o.Return > maxRet {
			maxRet = o.Return
		}
	}
	for _, o := range ops {
		_, ns := l2model.Step(st, o.Input, o.Output)
		st = ns.(l2state)
	}
	rc := w.a.ipRefcnt // read in place: taking the lock is a park point and would let other tasks run
	for _, ip := range l2IPs {
		canon := net.ParseIP(ip).String()
		if rc[canon] != st.holders(ip) {
			w.violate("reference-count", fmt.Sprintf("after %s the reference count of %s is %d but %d service(s) hold it (%s); history %s", after, ip, rc[canon], st.holders(ip), st.key(), describeOps(ops)))
		}
	}
	w.stats["probe.refcounts-checked"]++
}

func (w *l2world) inflight() int { return w.active }

func arpFrame(op arp.Operation, srcMAC net.HardwareAddr, srcIP net.IP, dstMAC net.HardwareAddr, target net.IP) []byte {
	p, err := arp.NewPacket(op, srcMAC, srcIP, dstMAC, target)
	if err != nil {
		panic(err)
	}
	pb, _ := p.MarshalBinary()
	f := &ethernet.Frame{Destination: dstMAC, Source: srcMAC, EtherType: ethernet.EtherTypeARP, Payload: pb}
	fb, _ := f.MarshalBinary()
	return fb
}

// lan injects frames and observes the answers.
func (w *l2world) lan() {
	n := 3 + w.pick(14, "lan frames")
	peerMAC := net.HardwareAddr{2, 0, 0, 0, 9, 9}
	for i := 0; i < n && w.viol == nil; i++ {
		switch w.pick(4, "lan pause") {
		case 1:
			simrt.Sleep(time.Duration(1+w.pick(1200, "ms")) * time.Millisecond)
		case 2:
			simrt.Yield("lan")
		}
		intf := l2Ifs[w.pick(len(l2Ifs), "interface")]
		ipStr := l2IPs[w.pick(len(l2IPs), "target")]
		ip := net.ParseIP(ipStr)
		if ip.To4() == nil {
			// IPv6: the decision function only
			call := w.stamp()
			ans := w.a.VerifAnswers(ip, intf)
			ret := w.stamp()
			w.ops = append(w.ops, porcupine.Operation{ClientId: 9, Input: l2op{Kind: "query", IP: ipStr, Intf: intf}, Call: call, Output: ans, Return: ret})
			continue
		}
		conn := simarp.Conns[intf]
		if conn == nil || conn.Closed {
			continue
		}
		kind := w.pick(8, "frame kind")
		w.frameID++
		f := &simarp.Frame{ID: w.frameID}
		mustIgnore := ""
		switch {
		case kind == 0:
			f.Data = arpFrame(arp.OperationReply, peerMAC, net.IPv4(10, 20, 30, 99), ethernet.Broadcast, ip)
			mustIgnore = "an ARP reply"
		case kind == 1:
			f.Data = arpFrame(arp.OperationRequest, peerMAC, net.IPv4(10, 20, 30, 99), net.HardwareAddr{2, 0, 0, 0, 7, 7}, ip)
			mustIgnore = "a request addressed to a foreign MAC"
		case kind == 2 && w.faults:
			f.Err = errors.New("simulated read error")
			w.stats["fault.frame-read-error"]++
		case kind == 3:
			f.Data = arpFrame(arp.OperationRequest, peerMAC, net.IPv4(10, 20, 30, 99), nodeMAC[intf], ip)
		default:
			f.Data = arpFrame(arp.OperationRequest, peerMAC, net.IPv4(10, 20, 30, 99), ethernet.Broadcast, ip)
		}
		call := w.stamp()
		conn.Inject(f)
		w.s.Park(&simrt.Op{Kind: "await-frame", Obj: fmt.Sprintf("%s#%d", intf, f.ID), Enabled: func() bool { return f.Done || conn.Closed }})
		ret := w.stamp()
		if f.Err != nil || !f.Taken || f.WriteFailed {
			continue // injected read error / responder closed / injected write error: no claim
		}
		answered := false
		for _, r := range f.Replies {
			var ef ethernet.Frame
			var ap arp.Packet
			if ef.UnmarshalBinary(r) == nil && ap.UnmarshalBinary(ef.Payload) == nil && ap.Operation == arp.OperationReply && ap.SenderIP.Equal(ip) &&
				ap.TargetIP.Equal(net.IPv4(10, 20, 30, 99)) && bytes.Equal(ap.TargetHardwareAddr, peerMAC) {
				// (a reply to the requester; an unsolicited announcement of the same address written
				// by the periodic loop in the same window has target = the address itself)
				answered = true
			}
		}
		if mustIgnore != "" {
			if answered {
				w.violate("answered-what-must-be-ignored", fmt.Sprintf("%s for %s on %s was answered", mustIgnore, ipStr, intf))
			}
			w.stats["probe.frame-that-must-be-ignored"]++
			continue
		}
		w.ops = append(w.ops, porcupine.Operation{ClientId: 9, Input: l2op{Kind: "query", IP: ipStr, Intf: intf}, Call: call, Output: answered, Return: ret})
		if answered {
			w.stats["probe.query-answered"]++
		} else {
			w.stats["probe.query-unanswered"]++
		}
	}
	w.done++
}

func gl2Run(env *runner.Env) (res *runner.Result) {
	w := &l2world{env: env, ch: env.Ch, stats: map[string]int64{}, may: map[string]map[string]*mayHold{}}
	res = &runner.Result{Stats: w.stats}
	defer func() { simrt.Active, simrt.SelectOrder, simrt.MapOrder, simrt.OnSend = nil, nil, nil, nil }()
	bubble := func(t *testing.T) {
		simrt.SetEpoch()
		s := simrt.NewSched(func(n int, l string) int { return w.ch.Intn(n, l) })
		s.Verbose = env.Verbose
		w.s = s
		simrt.Active = s
		simrt.SelectOrder = func(n int) int { return w.ch.Intn(n, "select order") }
		simrt.MapOrder = func(n int) []int { return w.ch.Perm(n, "map order") }
		simarp.Reset()
		w.faults = w.pick(3, "faults") == 0
		a, _ := VerifNew(log.NewNopLogger(), nil)
		// tuning knob: the capacity of the gratuitous-announcement queue (1024 in New) is drawn
		// per run, so that correctness never silently depends on the queue never filling up
		spamCap := []int{1, 2, 8, 1024}[w.pick(4, "spam queue capacity")]
		a.spamCh = make(chan IPAdvertisement, spamCap)
		w.stats[fmt.Sprintf("knob.spam-queue-capacity-%d", spamCap)]++
		a.nodeInterfaces = append([]string{}, l2Ifs...)
		w.a = a
		s.GoNamed("setup", false, func() {
			for i, name := range l2Ifs {
				ifi := net.Interface{Index: 900 + i, Name: name, HardwareAddr: nodeMAC[name], Flags: net.FlagUp | net.FlagBroadcast}
				resp, err := newARPResponder(log.NewNopLogger(), &ifi, a.shouldAnnounce)
				if err != nil {
					panic("newARPResponder: " + err.Error())
				}
				a.Lock()
				a.arps[ifi.Index] = resp
				a.Unlock()
				conn := simarp.Conns[name]
				conn.OnWrite = func(wr simarp.Written) { w.onNodeWrite(name, wr) }
				if w.faults {
					conn.WriteErr = func() error {
						if w.pick(8, "write error") == 0 {
							w.stats["fault.frame-write-error"]++
							return errors.New("simulated write error")
						}
						return nil
					}
				}
			}
			s.GoNamed("spamloop", true, a.spamLoop)
			nu := 1 + w.pick(2, "updaters")
			w.ntasks = nu + 1
			for i := 0; i < nu; i++ {
				i := i
				s.GoNamed(fmt.Sprintf("updater%d", i+1), false, func() { w.updater(i + 1) })
			}
			s.GoNamed("lan", false, w.lan)
		})
		var endAt time.Duration
		done := func() bool {
			if w.viol != nil {
				return true
			}
			if w.ntasks == 0 || w.done < w.ntasks {
				return false
			}
			if endAt == 0 {
				endAt = simrt.Now()
			}
			return simrt.Now() > endAt+7*time.Second // let the gratuitous loop run out
		}
		reason := s.Run(done, 60000, time.Hour)
		if w.viol == nil && reason != "" && reason != "time limit" {
			if strings.HasPrefix(reason, "panic") && !strings.Contains(reason, "layer2.(*l2world)") {
				w.violate("panic-in-metallb", reason)
			} else if strings.HasPrefix(reason, "panic") {
				panic("harness trouble: " + reason)
			} else if w.done < w.ntasks {
				w.violate("operation-blocked", "an announce/withdraw call or a request was never finished: "+reason)
			}
		}
		if w.viol == nil && len(w.ops) > 0 && env.On("C13") {
			r := porcupine.CheckOperationsTimeout(l2model, w.ops, 10*time.Second)
			switch r {
			case porcupine.Illegal:
				w.violate("not-linearizable", "the history of announce / withdraw / request operations is not linearizable against 'answers iff some announced service holds the address with an advertisement covering the interface': "+describeOps(w.ops))
			case porcupine.Unknown:
				w.stats["porcupine-inconclusive"]++
			default:
				w.stats["probe.history-linearizable"]++
			}
		}
		res.Violation = w.viol
		res.Steps = s.Steps
		res.SimTime = simrt.Now()
		res.SchedHash = s.Hash
		res.NonTrivial = w.stats["probe.query-answered"] > 0
		res.Log = s.Log
		w.stats["history-operations"] += int64(len(w.ops))
		s.Kill()
	}
	func() {
		defer func() {
			if r := recover(); r != nil {
				if m := fmt.Sprint(r); strings.Contains(m, "deadlock") && strings.Contains(m, "bubble") {
					if res.Steps == 0 {
						panic("the bubble ended before the simulation ran: " + m)
					}
					return
				}
				panic(r)
			}
		}()
		synctest.Test(curTl2, bubble)
	}()
	return res
}

// onNodeWrite sees every frame the node writes: gratuitous announcements must stop once the last
// service holding the address has been withdrawn (and that withdrawal has returned).
func (w *l2world) onNodeWrite(intf string, wr simarp.Written) {
	var ef ethernet.Frame
	var ap arp.Packet
	if ef.UnmarshalBinary(wr.Data) != nil || ap.UnmarshalBinary(ef.Payload) != nil {
		w.violate("malformed-frame", "the node wrote a frame that does not parse as ARP over Ethernet")
		return
	}
	if wr.During != 0 {
		return // a reply to a request being handled
	}
	ip := ap.SenderIP.String()
	w.stats["probe.gratuitous-frame"]++
	if len(w.may[ip]) == 0 {
		w.violate("gratuitous-after-last-withdrawal", fmt.Sprintf("an unsolicited ARP announcement for %s was sent on %s although no service holds the address (the last withdrawal had returned)", ip, intf))
	}
}

func describeOps(ops []porcupine.Operation) string {
	var out []string
	for _, o := range ops {
		out = append(out, fmt.Sprintf("[%d,%d] c%d %+v -> %v", o.Call, o.Return, o.ClientId, o.Input, o.Output))
	}
	return strings.Join(out, " | ")
}

func TestVerifGl2(t *testing.T) {
	if os.Getenv("VERIF_MODE") == "" {
		t.Skip("verification harness: driven by /verif/bin/verifcheck")
	}
	curTl2 = t
	if code := runner.Main("gl2", gl2Run); code != 0 {
		t.Fatalf("runner exit %d", code)
	}
}
