//go:build verif

package controllers

// G-frrk8s: FRR-K8s mode under the goroutine engine (DESIGN.md §3.6).
// Real: frrk8s.NewSessionManager + updateConfig, FRRK8sReconciler.UpdateConfig, its debouncer
// goroutine (started as SetupWithManager does), Reconcile (Get / CreateOrUpdate / Delete).
// Simulated: the API server (simk8s, every call a park point, write faults, external edits), the
// controller-runtime channel source and worker (harness tasks), frr-k8s (frrk8sinterp).

import (
	"sort"
	"context"
	"encoding/json"
	"errors"
	"fmt"
	"os"
	"strings"
	"testing"
	"testing/synctest"
	"time"

	"github.com/go-kit/log"
	frrv1beta1 "github.com/metallb/frr-k8s/api/v1beta1"
	"go.universe.tf/metallb/internal/bgp"
	frrk8s "go.universe.tf/metallb/internal/bgp/frrk8s"
	"go.universe.tf/metallb/internal/logging"
	"go.universe.tf/metallb/internal/verifsim/bgpgen"
	"go.universe.tf/metallb/internal/verifsim/bgpmodel"
	"go.universe.tf/metallb/internal/verifsim/choice"
	"go.universe.tf/metallb/internal/verifsim/frrk8sinterp"
	"go.universe.tf/metallb/internal/verifsim/runner"
	"go.universe.tf/metallb/internal/verifsim/simk8s"
	"go.universe.tf/metallb/internal/verifsim/simrt"
	"k8s.io/apimachinery/pkg/api/equality"
	ctrl "sigs.k8s.io/controller-runtime"
	"sigs.k8s.io/controller-runtime/pkg/event"
)

var curTk8s *testing.T


type k8sUpdate struct {
	js    string // the computed spec, JSON
	idx   int
	spec  frrv1beta1.FRRConfigurationSpec
	model *bgpmodel.State
	at    time.Duration
}

type kworld struct {
	specByKey   map[string]string
	paramsByKey map[string]bgp.SessionParameters
	lvl         logging.Level
	env     *runner.Env
	ch      *choice.Chooser
	s       *simrt.Sched
	stats   map[string]int64
	viol    *runner.Violation
	srv     *simk8s.Server
	cache   *simk8s.Cache
	rec     *FRRK8sReconciler
	updates []*k8sUpdate
	pending map[string]func(*bgpmodel.State)
	model   *bgpmodel.State
	queue   int // pending reconcile requests
	known   []runner.Violation
	halt    bool
	faultsOn bool
	lastFault time.Duration
	workDone, nworkers int
	doneAt time.Duration
	writes int
}

const frrNS, nodeName = "frr-k8s-system", "node1"

func (w *kworld) stat(n string)              { w.stats[n]++ }
func (w *kworld) pick(n int, l string) int { return w.ch.Intn(n, l) }
func (w *kworld) violate(prop, inv, msg string) {
	if !w.env.On(prop) {
		return
	}
	if w.viol == nil {
		w.viol = &runner.Violation{Property: prop, Invariant: inv, Message: msg}
		w.s.Event("VIOLATION %s/%s: %s", prop, inv, msg)
	}
}

func (w *kworld) violateSig(prop, inv, sig, msg string) {
	if !w.env.On(prop) {
		return
	}
	if w.env.Known[sig] {
		if len(w.known) == 0 {
			w.known = append(w.known, runner.Violation{Property: prop, Invariant: inv, Signature: sig, Message: msg})
		}
		w.halt = true
		return
	}
	if w.viol == nil {
		w.viol = &runner.Violation{Property: prop, Invariant: inv, Signature: sig, Message: msg}
	}
}

func (w *kworld) object() *frrv1beta1.FRRConfiguration {
	o := w.srv.Get("FRRConfiguration", frrNS+"/"+frrk8s.ConfigName(nodeName))
	if o == nil {
		return nil
	}
	return o.(*frrv1beta1.FRRConfiguration)
}

// onUpdateConfig wraps the reconciler's UpdateConfig (the session manager's callback).
func (w *kworld) onUpdateConfig(c interface{}) {
	cfg := c.(frrv1beta1.FRRConfiguration)
	cur := w.s.Current().Name
	if f := w.pending[cur]; f != nil {
		f(w.model)
		delete(w.pending, cur)
	}
	u := &k8sUpdate{idx: len(w.updates), spec: *cfg.Spec.DeepCopy(), model: w.model.Clone(), at: simrt.Now()}
	w.updates = append(w.updates, u)
	w.s.Event("UpdateConfig #%d by %s", u.idx, cur)
	// content: the resource must denote exactly the requested state
	if w.env.On("C15") {
		got, problems := frrk8sinterp.Denote(&cfg, nodeName)
		want := u.model.Expected()
		if len(problems) > 0 {
			w.violate("C15", "resource-problem", fmt.Sprintf("FRRConfiguration #%d: %s", u.idx, strings.Join(problems, "; ")))
		} else if g, e := got.Canonical(), want.Canonical(); g != e {
			// listed finding: the session's source address is not carried into the resource
			ns := u.model.Clone()
			for _, x := range ns.Sessions {
				x.SrcAddr = ""
			}
			if ns.Expected().Canonical() == g {
				w.violateSig("C15", "denotation-differs-from-request", "C15/source-address-dropped", fmt.Sprintf("FRRConfiguration #%d lacks the requested source address:\n--- resource\n%s--- requested\n%s", u.idx, g, e))
				return
			}
			w.violate("C15", "denotation-differs-from-request", fmt.Sprintf("FRRConfiguration #%d and the request differ:\n--- resource\n%s--- requested\n%s", u.idx, g, e))
		}
		js, _ := json.Marshal(cfg.Spec)
		var bfd []string
		for _, p := range cfg.Spec.BGP.BFDProfiles {
			bfd = append(bfd, fmt.Sprint(p.Name, p.ReceiveInterval != nil && *p.ReceiveInterval > 0, ptrVal(p.ReceiveInterval)))
		}
		key := u.model.Key() + fmt.Sprint(bfd)
		if w.specByKey == nil {
			w.specByKey = map[string]string{}
		}
		u.js = string(js)
		specByKey := w.specByKey // this run only: the comparison with other creation orders is freshComputeCheck
		if old, seen := specByKey[key]; seen && old != string(js) {
			w.violate("C15", "resource-not-a-function-of-the-session-set", fmt.Sprintf("the same set of sessions produced two different resources:\n%s\n%s", old, js))
		} else if !seen && len(specByKey) < 200000 {
			specByKey[key] = string(js)
		}
		w.stat("probe.resource-interpreted")
	}
	w.rec.UpdateConfig(c)
}

func ptrVal(p *uint32) uint32 {
	if p == nil {
		return 0
	}
	return *p
}

func (w *kworld) submitter(slot int, sm bgp.SessionManager) {
	me := w.s.Current().Name
	type owned struct {
		key   string
		ms    *bgpmodel.Session
		sess  bgp.Session
		alive bool
	}
	var own []*owned
	nops := 2 + w.pick(9, "nops")
	nsess := 0
	fail := func(what string, err error) {
		w.violate("C15", "consistent-request-refused", what+" failed: "+err.Error())
		w.workDone++
	}
	for i := 0; i < nops && w.viol == nil && !w.halt; i++ {
		switch w.pick(5, "pause") {
		case 1:
			simrt.Sleep(time.Duration(1+w.pick(400, "pause ms")) * time.Millisecond)
		case 2:
			simrt.Sleep(time.Duration(1+w.pick(7, "pause s")) * time.Second)
		case 3:
			simrt.Yield("submitter")
		}
		op := w.pick(9, "op")
		switch {
		case op < 3 || len(own) == 0:
			if nsess >= 3 {
				continue
			}
			params, ms := bgpgen.Session(w.pick, slot, nsess, true)
			if !strings.Contains(w.env.Variant, "known=only") {
				params.SourceAddress, ms.SrcAddr = nil, "" // listed finding: the source address is dropped
			}
			nsess++
			key := fmt.Sprintf("%d/%d", slot, nsess)
			if w.paramsByKey == nil {
				w.paramsByKey = map[string]bgp.SessionParameters{}
			}
			w.paramsByKey[key] = params
			w.pending[me] = func(st *bgpmodel.State) { st.Sessions[key] = ms }
			sess, err := sm.NewSession(log.NewNopLogger(), params)
			delete(w.pending, me)
			if err != nil {
				fail("NewSession", err)
				return
			}
			own = append(own, &owned{key, ms, sess, true})
		case op < 7:
			o := own[w.pick(len(own), "which session")]
			if !o.alive {
				continue
			}
			madvs, advs := bgpgen.Advs(w.pick, false)
			if w.pick(6, "identical resubmission") == 0 {
				madvs, advs = nil, nil
				for _, a := range o.ms.Advs {
					madvs = append(madvs, a)
					advs = append(advs, bgpgen.ToAdvertisement(a))
				}
			}
			w.pending[me] = func(st *bgpmodel.State) { st.Sessions[o.key].Advs = madvs }
			err := o.sess.Set(advs...)
			delete(w.pending, me)
			if err != nil {
				fail("Set", err)
				return
			}
			o.ms.Advs = madvs
		case op < 8:
			o := own[w.pick(len(own), "which session")]
			if !o.alive {
				continue
			}
			key := o.key
			w.pending[me] = func(st *bgpmodel.State) { delete(st.Sessions, key) }
			if err := o.sess.Close(); err != nil {
				fail("Close", err)
				return
			}
			delete(w.pending, me)
			o.alive = false
		default:
			// somebody edits or deletes the resource behind MetalLB's back
			if obj := w.object(); obj != nil && w.faultsOn {
				w.stat("fault.external-edit")
				w.lastFault = simrt.Now()
				if w.pick(2, "edit or delete") == 0 {
					obj.Spec.BGP.Routers = nil
					obj.ResourceVersion = ""
					_ = w.srv.Update(obj)
					w.s.Event("%s: external edit of the FRRConfiguration", me)
				} else {
					_ = w.srv.Delete("FRRConfiguration", frrNS+"/"+obj.Name)
					w.s.Event("%s: external delete of the FRRConfiguration", me)
				}
				w.queue++ // the watch on the resource enqueues a request
				w.applyCache()
			}
		}
	}
	w.workDone++
	if w.workDone == w.nworkers {
		w.faultsOn = false
		w.doneAt = simrt.Now()
	}
}

func (w *kworld) applyCache() {
	for {
		l := w.cache.Lagging()
		if len(l) == 0 {
			return
		}
		w.cache.ApplyNext(l[0])
	}
}

func gfrrk8sRun(env *runner.Env) (res *runner.Result) {
	w := &kworld{env: env, ch: env.Ch, stats: map[string]int64{}, pending: map[string]func(*bgpmodel.State){}, model: bgpmodel.NewState()}
	res = &runner.Result{Stats: w.stats}
	defer func() { simrt.Active, simrt.SelectOrder, simrt.MapOrder, simrt.OnSend = nil, nil, nil, nil }()
	bubble := func(t *testing.T) {
		simrt.SetEpoch()
		s := simrt.NewSched(func(n int, l string) int { return w.ch.Intn(n, l) })
		s.Verbose = env.Verbose
		w.s = s
		simrt.Active = s
		simrt.SelectOrder = func(n int) int { return w.ch.Intn(n, "select order") }
		simrt.MapOrder = func(n int) []int { return w.ch.Perm(n, "map order") }
		w.srv = simk8s.NewServer()
		w.cache = simk8s.NewCache(w.srv, []simk8s.Kind{"FRRConfiguration"})
		w.cache.Sync("FRRConfiguration", func(n int) []int { return make([]int, n) })
		w.faultsOn = w.pick(3, "faults") != 0
		cl := &simk8s.Client{C: w.cache}
		cl.Hook = func(op string, k simk8s.Kind) error {
			simrt.Yield("api " + op)
			w.applyCache()
			if w.faultsOn && (op == "create" || op == "update" || op == "delete") && w.pick(5, "api write outcome") == 0 {
				w.stat("fault.api-write-error")
				w.lastFault = simrt.Now()
				return errors.New("simulated: api write failed")
			}
			if op == "create" || op == "update" {
				w.writes++
			}
			return nil
		}
		debug := w.pick(3, "debug log level") == 0
		lvl := logging.Level(logging.LevelInfo)
		if debug {
			lvl = logging.LevelDebug
		}
		w.lvl = lvl
		w.rec = &FRRK8sReconciler{Client: cl, Logger: log.NewNopLogger(), LogLevel: lvl, NodeName: nodeName, FRRK8sNamespace: frrNS}
		w.rec.configChangedChan = make(chan struct{})
		w.rec.reconcileChan = make(chan event.GenericEvent)
		debouncer(w.rec.configChangedChan, w.rec.reconcileChan, 3*time.Second)
		sm := frrk8s.NewSessionManager(log.NewNopLogger(), lvl, nodeName, frrNS)
		// (SetEventCallback takes the session manager's lock: it runs in a task, see below)
		// controller-runtime's channel source: receives generic events and enqueues requests
		s.GoNamed("source", true, func() {
			for {
				<-w.rec.reconcileChan
				simrt.Yield("source received")
				w.queue++
			}
		})
		// the controller's worker
		s.GoNamed("worker", true, func() {
			backoff := 5 * time.Millisecond
			for {
				s.Park(&simrt.Op{Kind: "dequeue", Obj: "frrk8s", Enabled: func() bool { return w.queue > 0 }})
				w.queue = 0 // requests for the same key are de-duplicated
				before, own, ext := w.srv.Write, w.writes, w.stats["fault.external-edit"]
				_, err := w.rec.Reconcile(context.Background(), ctrl.Request{})
				s.Event("worker: Reconcile returned err=%v", err)
				w.applyCache()
				if w.srv.Write != before {
					w.queue++ // the watch reports the write back
				}
				if err == nil && w.writes != own && w.stats["fault.external-edit"] == ext {
					w.checkWritten()
				}
				if err != nil {
					w.stat("probe.reconcile-error-requeue")
					simrt.Sleep(backoff)
					if backoff < 2*time.Second {
						backoff *= 2
					}
					w.queue++
				} else {
					backoff = 5 * time.Millisecond
				}
			}
		})
		w.nworkers = 1 + w.pick(3, "submitters")
		s.GoNamed("setup", false, func() {
			sm.SetEventCallback(w.onUpdateConfig)
			for i := 0; i < w.nworkers; i++ {
				i := i
				s.GoNamed(fmt.Sprintf("submitter%d", i+1), false, func() { w.submitter(i, sm) })
			}
		})
		settle := 3*time.Second + 5*time.Second
		converged := func() bool {
			if len(w.updates) == 0 {
				return true
			}
			o := w.object()
			return o != nil && equality.Semantic.DeepEqual(o.Spec, w.updates[len(w.updates)-1].spec)
		}
		done := func() bool {
			if w.viol != nil || w.halt {
				return true
			}
			if w.workDone < w.nworkers {
				return false
			}
			since := w.doneAt
			if w.lastFault > since {
				since = w.lastFault
			}
			return simrt.Now() > since+settle
		}
		reason := s.Run(done, 60000, time.Hour)
		if w.viol == nil && !w.halt {
			switch {
			case strings.HasPrefix(reason, "panic"):
				if strings.Contains(reason, "zz_verif") && !strings.Contains(reason, "controllers.(*FRRK8sReconciler)") && !strings.Contains(reason, "frrk8s.") {
					panic("harness trouble: " + reason)
				}
				w.violate(firstOnK(env), "panic-in-metallb", reason)
			case w.workDone < w.nworkers:
				w.violate(firstOnK(env), "submitter-blocked", fmt.Sprintf("a session operation never returned (%s)", reason))
			case !converged():
				w.violate(firstOnK(env), "latest-resource-not-written", fmt.Sprintf("%v after the last fault and the last update the FRRConfiguration in the API server is not the most recently computed one (#%d of %d) [%s; queue=%d]", settle, len(w.updates)-1, len(w.updates), reason, w.queue))
			}
		}
		res.Violation = w.viol
		res.Known = w.known
		res.Steps = s.Steps
		res.SimTime = simrt.Now()
		res.SchedHash = s.Hash
		res.NonTrivial = w.writes > 0
		res.Log = s.Log
		w.stats["update-config-calls"] += int64(len(w.updates))
		w.stats["resource-writes"] += int64(w.writes)
		s.Kill()
	}
	func() {
		defer func() {
			if r := recover(); r != nil {
				if m := fmt.Sprint(r); strings.Contains(m, "deadlock") && strings.Contains(m, "bubble") {
					if res.Steps == 0 {
						panic("the bubble ended before the simulation ran: " + m)
					}
					return
				}
				panic(r)
			}
		}()
		synctest.Test(curTk8s, bubble)
	}()
	if res.Violation == nil && !w.halt && env.On("C15") {
		simrt.Active, simrt.SelectOrder, simrt.OnSend = nil, nil, nil
		w.freshComputeCheck()
		res.Violation = w.viol
	}
	return res
}

// freshComputeCheck is the determinism clause of C15 in a replayable form: the requested state of
// an update of this run is built once more on a fresh session manager under a drawn creation
// order, advertisement order and map iteration order; the computed resource must be identical.
func (w *kworld) freshComputeCheck() {
	var cands []*k8sUpdate
	for _, u := range w.updates {
		if u.js != "" {
			cands = append(cands, u)
		}
	}
	if len(cands) == 0 {
		return
	}
	picks := []*k8sUpdate{cands[len(cands)-1]}
	if len(cands) > 1 {
		picks = append(picks, cands[w.pick(len(cands)-1, "fresh computation of which update")])
	}
	simrt.MapOrder = func(n int) []int { return w.ch.Perm(n, "fresh map order") }
	defer func() { simrt.MapOrder = nil }()
	for _, u := range picks {
		sm := frrk8s.NewSessionManager(log.NewNopLogger(), w.lvl, nodeName, frrNS)
		var last *frrv1beta1.FRRConfiguration
		sm.SetEventCallback(func(c interface{}) {
			cfg := c.(frrv1beta1.FRRConfiguration)
			last = &cfg
		})
		keys := make([]string, 0, len(u.model.Sessions))
		for k := range u.model.Sessions {
			keys = append(keys, k)
		}
		sort.Strings(keys)
		for _, ki := range w.ch.Perm(len(keys), "fresh creation order") {
			k := keys[ki]
			ms := u.model.Sessions[k]
			sess, err := sm.NewSession(log.NewNopLogger(), w.paramsByKey[k])
			if err != nil {
				w.violate("C15", "fresh-computation-refused", fmt.Sprintf("re-creating session %s of update #%d on a fresh session manager failed: %v", k, u.idx, err))
				return
			}
			var ads []*bgp.Advertisement
			for _, ai := range w.ch.Perm(len(ms.Advs), "fresh advertisement order") {
				ads = append(ads, bgpgen.ToAdvertisement(ms.Advs[ai]))
			}
			if err := sess.Set(ads...); err != nil {
				w.violate("C15", "fresh-computation-refused", fmt.Sprintf("re-submitting the advertisements of session %s of update #%d failed: %v", k, u.idx, err))
				return
			}
		}
		if last == nil {
			continue
		}
		js, _ := json.Marshal(last.Spec)
		w.stat("probe.fresh-computation-compared")
		if string(js) != u.js {
			w.violate("C15", "resource-depends-on-creation-or-map-order", fmt.Sprintf("update #%d: the same sessions and advertisements, created in another order on a fresh session manager, give a different resource:\n%s\n%s", u.idx, u.js, js))
			return
		}
	}
}

// checkWritten: whatever MetalLB writes must be one of the configurations it computed, and never
// an older one once a newer one had been computed before the reconcile began... the reconciler
// reads the desired configuration under its lock, so the written spec equals the latest.
func (w *kworld) checkWritten() {
	o := w.object()
	if o == nil {
		return
	}
	match := -1
	for i := len(w.updates) - 1; i >= 0; i-- {
		if equality.Semantic.DeepEqual(o.Spec, w.updates[i].spec) {
			match = i
			break
		}
	}
	if match < 0 {
		w.violate(firstOnK(w.env), "written-resource-never-computed", fmt.Sprintf("the FRRConfiguration written to the API server equals none of the %d configurations the session manager computed (a later write changed it, e.g. a redaction leaking into the stored object)", len(w.updates)))
	}
}

func firstOnK(env *runner.Env) string {
	if env.On("C15") {
		return "C15"
	}
	return "C19"
}

func TestVerifGfrrk8s(t *testing.T) {
	if os.Getenv("VERIF_MODE") == "" {
		t.Skip("verification harness: driven by /verif/bin/verifcheck")
	}
	curTk8s = t
	if code := runner.Main("gfrrk8s", gfrrk8sRun); code != 0 {
		t.Fatalf("runner exit %d", code)
	}
}
