//go:build verif

package controllers

import "sigs.k8s.io/controller-runtime/pkg/event"

// The update-event filters SetupWithManager installs, exported for the simulated informers.

func VerifPoolReconcilerUpdateFilter(e event.UpdateEvent) bool {
	return filterNodeEvent(e) && filterNamespaceEvent(e) && filterPoolStatusEvent(e)
}

func VerifPoolStatusReconcilerUpdateFilter(e event.UpdateEvent) bool {
	return !filterPoolStatusEvent(e)
}

func VerifConfigReconcilerUpdateFilter(e event.UpdateEvent) bool {
	return filterNodeEvent(e) && filterNamespaceEvent(e) && filterConfigmapEvent(e)
}

func VerifReloadKey() (namespace, name string) { return "metallbreload", "reload" }

func (r *ServiceReconciler) VerifInitialLoadPerformed() bool { return r.initialLoadPerformed }
