//go:build verif

package native

// G-native: the native BGP session against a scripted peer under the goroutine engine
// (DESIGN.md §3.4).  Real: sessionManager.NewSession, run, connect, sendUpdates, sendKeepalives,
// consumeBGP, Set, Close, abort, backoff and the whole message codec (sources rewritten by
// simbuild: sync -> simsync, go -> simrt.Go, select -> simrt.Select, dialMD5 -> simnet.Dial).
// Simulated: TCP (simnet), the peer (scripted, decoding with the independent bgpwire package).

import (
	"context"
	"errors"
	"fmt"
	"net"
	"net/netip"
	"os"
	"sort"
	"strings"
	"testing"
	"testing/synctest"
	"time"

	"github.com/go-kit/log"
	"go.universe.tf/metallb/internal/bgp"
	"go.universe.tf/metallb/internal/bgp/community"
	"go.universe.tf/metallb/internal/verifsim/bgpwire"
	"go.universe.tf/metallb/internal/verifsim/choice"
	"go.universe.tf/metallb/internal/verifsim/runner"
	"go.universe.tf/metallb/internal/verifsim/simnet"
	"go.universe.tf/metallb/internal/verifsim/simrt"
)

var curT *testing.T

type route struct {
	prefix string
	lp     uint32 // only meaningful for iBGP
	comms  string
}

type peerConn struct {
	id          int
	conn        *simnet.Conn // server side
	client      *simnet.Conn
	dec         bgpwire.Decoder
	established bool // the peer answered with a well-formed, acceptable OPEN
	wrongASN    bool
	rib         map[string]route
	msgsAfterOpen int
	sawOpen     bool
	closedByPeer bool
	mode        string
	handshakeOver bool
	as4         bool // this connection's peer announces the 4-byte-AS capability
}

type gworld struct {
	env   *runner.Env
	ch    *choice.Chooser
	s     *simrt.Sched
	stats map[string]int64
	viol  *runner.Violation
	// parameters
	myASN, peerASN uint32
	ibgp           bool
	peerAS4        bool
	varyAS4        bool
	handshakes     int // connections whose handshake is in flight
	hold           time.Duration
	routerID       net.IP
	localIP        net.IP
	// state
	conns      []*peerConn
	faultsOff  bool
	sets       [][]route // every requested set so far
	last       []route
	workDone   bool
	doneAt     time.Duration
	closed     bool
	closeDials int
	closeBytes int
	converged  bool
	convAt     time.Duration
	lastFault  time.Duration
	convCounted bool
}

func (w *gworld) stat(n string) { w.stats[n]++ }

func (w *gworld) violate(prop, inv, sig, msg string) {
	if !w.env.On(prop) {
		return
	}
	if w.viol == nil {
		w.viol = &runner.Violation{Property: prop, Invariant: inv, Signature: sig, Message: msg}
		w.s.Event("VIOLATION %s/%s: %s", prop, inv, msg)
	}
}

func (w *gworld) pick(n int, l string) int { return w.ch.Intn(n, l) }

func (w *gworld) totalWritten() int {
	n := 0
	for _, pc := range w.conns {
		n += pc.client.Written()
	}
	return n
}

// dial is what the session's dialMD5 call reaches.
func (w *gworld) dial(ctx context.Context, addr string, src net.IP, password string) (net.Conn, error) {
	if w.closed {
		w.violate("C17", "dial-after-close", "", "the session dialled the peer after Close returned")
	}
	mode := "ok"
	if !w.faultsOff {
		switch w.pick(12, "dial outcome") {
		case 0:
			mode = "refused"
		case 1:
			mode = "timeout"
		}
	}
	w.s.Event("dial %s -> %s", addr, mode)
	switch mode {
	case "refused":
		w.stat("fault.dial-refused")
		w.lastFault = simrt.Now()
		return nil, errors.New("connect: connection refused")
	case "timeout":
		w.stat("fault.dial-timeout")
		w.lastFault = simrt.Now()
		dl, _ := ctx.Deadline()
		w.s.Park(&simrt.Op{Kind: "dial-wait", Obj: addr, Deadline: dl, Enabled: func() bool { return false }})
		return nil, errors.New("timeout")
	}
	client, server := simnet.Pipe(fmt.Sprintf("conn%d", len(w.conns)+1), 1<<16, w.localIP)
	if w.pick(2, "fragment reads") == 1 {
		client.Fragment = func(avail int) int { return 1 + w.pick(avail, "fragment") }
	}
	pc := &peerConn{id: len(w.conns) + 1, conn: server, client: client, rib: map[string]route{}}
	// the peer's 4-byte-AS capability may differ from one connection to the next (a router
	// restarted with another software version) when both AS numbers fit in two bytes
	pc.as4 = w.peerAS4
	if w.myASN <= 65535 && w.peerASN <= 65535 && w.varyAS4 {
		pc.as4 = w.pick(2, "this connection 4-byte capable") == 1
		if pc.as4 != w.peerAS4 {
			w.stat("probe.peer-capability-differs-from-the-previous-connections")
		}
	}
	pc.dec.FourByteAS = pc.as4
	w.conns = append(w.conns, pc)
	// the peer's behaviour on this connection
	pc.mode = "normal"
	if !w.faultsOff {
		switch w.pick(14, "peer behaviour") {
		case 0:
			pc.mode = "wrong-asn"
		case 1:
			pc.mode = "open-delayed"
		case 2:
			pc.mode = "notification"
		case 3:
			pc.mode = "garbage-open"
		case 4:
			pc.mode = "close-before-open"
		case 5, 6:
			pc.mode = "drop-later"
		case 7:
			pc.mode = "stall"
		}
	}
	if pc.mode != "normal" {
		w.stat("fault.peer-" + pc.mode)
		w.lastFault = simrt.Now()
	}
	w.handshakes++
	w.s.GoNamed(fmt.Sprintf("peer%d", pc.id), true, func() {
		defer func() {
			if !pc.handshakeOver {
				pc.handshakeOver = true
				w.handshakes--
			}
		}()
		w.peer(pc)
	})
	return client, nil
}

func (w *gworld) expectOpen(pc *peerConn, o *bgpwire.Open) {
	want16 := uint16(w.myASN)
	if w.myASN > 65535 {
		want16 = 23456
	}
	var problems []string
	if o.Version != 4 {
		problems = append(problems, fmt.Sprintf("version %d", o.Version))
	}
	if o.AS16 != want16 {
		problems = append(problems, fmt.Sprintf("2-byte AS field %d, want %d", o.AS16, want16))
	}
	if !o.HasAS4 || o.AS4 != w.myASN {
		problems = append(problems, fmt.Sprintf("4-byte AS capability %v/%d, want %d", o.HasAS4, o.AS4, w.myASN))
	}
	if int(o.HoldTime) != int(w.hold.Seconds()) {
		problems = append(problems, fmt.Sprintf("hold time %d, want %d", o.HoldTime, int(w.hold.Seconds())))
	}
	wantID := w.routerID
	if wantID == nil {
		wantID = w.localIP
	}
	if a, _ := netip.AddrFromSlice(wantID.To4()); o.RouterID != a {
		problems = append(problems, fmt.Sprintf("router id %s, want %s", o.RouterID, a))
	}
	if len(problems) > 0 {
		w.violate("C16", "open-content", "", fmt.Sprintf("OPEN of connection %d: %s", pc.id, strings.Join(problems, "; ")))
	}
}

func (w *gworld) checkUpdate(pc *peerConn, u *bgpwire.Update) {
	if pc.wrongASN {
		w.violate("C17", "update-to-refused-peer", "", fmt.Sprintf("connection %d: the peer presented an unexpected ASN, yet an UPDATE was sent", pc.id))
	}
	for _, p := range u.Withdrawn {
		delete(pc.rib, p.String())
	}
	if len(u.Withdrawn) > 0 {
		w.stat("probe.withdraw-received")
	}
	if len(u.NLRI) > 0 && pc.id > 1 {
		w.stat("probe.update-on-a-reconnected-session")
	}
	if len(u.NLRI) == 0 {
		return
	}
	var problems []string
	if u.Origin != 0 {
		problems = append(problems, fmt.Sprintf("ORIGIN %d, want IGP(0)", u.Origin))
	}
	if w.ibgp {
		if len(u.ASPath) != 0 || u.ASPathSegs != 0 {
			problems = append(problems, fmt.Sprintf("AS_PATH %v for iBGP, want empty", u.ASPath))
		}
		if !u.HasLocalPre {
			problems = append(problems, "LOCAL_PREF missing for iBGP")
		}
	} else {
		if len(u.ASPath) != 1 || u.ASPath[0] != w.myASN {
			problems = append(problems, fmt.Sprintf("AS_PATH %v, want [%d]", u.ASPath, w.myASN))
		}
		if u.HasLocalPre {
			problems = append(problems, "LOCAL_PREF present for eBGP")
		}
	}
	if a, _ := netip.AddrFromSlice(w.localIP.To4()); !u.HasNextHop || u.NextHop != a {
		problems = append(problems, fmt.Sprintf("NEXT_HOP %v, want %s", u.NextHop, a))
	}
	for _, p := range u.NLRI {
		r := route{prefix: p.String(), comms: u.CommunityStrings()}
		if w.ibgp {
			r.lp = u.LocalPref
		}
		found := false
		for _, set := range w.sets {
			for _, x := range set {
				y := x
				if !w.ibgp {
					y.lp = 0
				}
				if y == r {
					found = true
				}
			}
		}
		if !found {
			problems = append(problems, fmt.Sprintf("route %+v was never requested (requested so far: %v)", r, w.sets))
		}
		pc.rib[p.String()] = r
	}
	if len(problems) > 0 {
		w.violate("C16", "update-content", "", fmt.Sprintf("UPDATE on connection %d: %s", pc.id, strings.Join(problems, "; ")))
	}
}

// peer is the scripted BGP peer of one connection.
func (w *gworld) peer(pc *peerConn) {
	c := pc.conn
	buf := make([]byte, 4096)
	readMsg := func() *bgpwire.Msg {
		for {
			m, err := pc.dec.Next()
			if err != nil {
				w.violate("C16", "malformed-message", "", fmt.Sprintf("connection %d: the session wrote a malformed message: %v", pc.id, err))
				return nil
			}
			if m != nil {
				return m
			}
			n, err := c.Read(buf[:1+w.pick(len(buf), "peer read size")])
			if err != nil {
				if pc.dec.Buffered() > 0 && !pc.client.Closed() && !pc.closedByPeer {
					w.violate("C16", "truncated-message", "", fmt.Sprintf("connection %d ended with %d bytes of an incomplete message", pc.id, pc.dec.Buffered()))
				}
				return nil
			}
			pc.dec.Feed(buf[:n])
		}
	}
	if pc.mode == "close-before-open" {
		pc.closedByPeer = true
		c.Close()
		return
	}
	m := readMsg()
	if m == nil {
		return
	}
	if m.Type != bgpwire.TypeOpen {
		w.violate("C16", "first-message-not-open", "", fmt.Sprintf("connection %d: first message has type %d", pc.id, m.Type))
		return
	}
	pc.sawOpen = true
	w.expectOpen(pc, m.Open)
	// answer
	asn := w.peerASN
	switch pc.mode {
	case "wrong-asn":
		asn = w.peerASN + 1
		pc.wrongASN = true
	case "open-delayed":
		simrt.Sleep(11 * time.Second) // past the session's 10 s connect deadline
	case "notification":
		pc.closedByPeer = true
		_, _ = c.Write(bgpwire.EncodeNotification(6, 5))
		c.Close()
		return
	case "garbage-open":
		pc.closedByPeer = true
		g := bgpwire.EncodeOpen(uint16(asn), 90, [4]byte{10, 9, 0, 1}, bgpwire.CapAS4(asn))
		switch w.pick(4, "garbage kind") {
		case 0:
			g[3] = 0 // marker
		case 1:
			g = g[:20+w.pick(len(g)-20, "truncate at")]
		case 2:
			g[28]++ // optional parameter length larger than the message
		case 3:
			g[30]-- // option length smaller than its capabilities
		}
		_, _ = c.Write(g)
		c.Close()
		return
	}
	as16 := uint16(asn)
	if asn > 65535 {
		as16 = 23456
	}
	var caps []byte
	if pc.as4 {
		caps = append(caps, bgpwire.CapAS4(asn)...)
	}
	if w.pick(2, "peer mp cap") == 1 {
		caps = append(caps, bgpwire.CapMP(1, 1)...)
	}
	if w.pick(3, "peer other cap") == 0 {
		caps = append(caps, bgpwire.CapOther(64+w.pick(8, "cap code")+2, w.pick(5, "cap len"))...)
	}
	peerHold := []uint16{90, 3, 30, 0}[w.pick(4, "peer hold")]
	if _, err := c.Write(bgpwire.EncodeOpen(as16, peerHold, [4]byte{10, 9, 0, 1}, caps)); err != nil {
		return
	}
	if _, err := c.Write(bgpwire.EncodeKeepalive()); err != nil {
		return
	}
	if !pc.handshakeOver {
		pc.handshakeOver = true
		w.handshakes--
	}
	acceptable := pc.mode != "wrong-asn" && pc.mode != "open-delayed" && !(w.myASN > 65535 && !pc.as4)
	pc.established = acceptable
	dropAfter := -1
	if pc.mode == "drop-later" {
		dropAfter = w.pick(6, "drop after messages")
	}
	stallAt := -1
	if pc.mode == "stall" {
		stallAt = w.pick(4, "stall after messages")
	}
	for {
		if dropAfter >= 0 && pc.msgsAfterOpen >= dropAfter {
			w.s.Event("peer%d drops the connection after %d messages", pc.id, pc.msgsAfterOpen)
			if len(pc.rib) > 0 {
				w.stat("probe.connection-lost-with-routes-installed")
			}
			if pc.msgsAfterOpen > 0 && !sameRoutes(pc.rib, w.last, w.ibgp) {
				w.stat("probe.connection-lost-in-the-middle-of-an-update-sequence")
			}
			pc.closedByPeer = true
			if w.pick(2, "reset or close") == 0 {
				c.Reset()
			} else {
				c.Close()
			}
			w.lastFault = simrt.Now()
			return
		}
		if stallAt >= 0 && pc.msgsAfterOpen >= stallAt {
			stallAt = -1
			d := time.Duration(1+w.pick(40, "stall seconds")) * time.Second
			w.s.Event("peer%d stops reading for %v", pc.id, d)
			simrt.Sleep(d)
			w.lastFault = simrt.Now()
		}
		m := readMsg()
		if m == nil {
			return
		}
		pc.msgsAfterOpen++
		switch m.Type {
		case bgpwire.TypeUpdate:
			w.checkUpdate(pc, m.Update)
		case bgpwire.TypeKeepalive:
			if pc.wrongASN {
				w.violate("C17", "keepalive-to-refused-peer", "", fmt.Sprintf("connection %d: the peer presented an unexpected ASN, yet the session accepted it with a KEEPALIVE", pc.id))
			}
		case bgpwire.TypeOpen:
			w.violate("C16", "second-open", "", fmt.Sprintf("connection %d: a second OPEN was sent", pc.id))
		}
	}
}

func (w *gworld) genRoutes() ([]route, []*bgp.Advertisement) {
	n := w.pick(5, "nroutes")
	var rs []route
	var ads []*bgp.Advertisement
	seen := map[string]bool{}
	for i := 0; i < n; i++ {
		bits := w.pick(33, "prefix length")
		var a [4]byte
		base := [][4]byte{{10, 20, 30, 40}, {192, 168, 255, 255}, {172, 16, 0, 1}, {203, 0, 113, 129}, {255, 255, 255, 255}, {1, 2, 3, 4}}[w.pick(6, "prefix base")]
		a = base
		p := netip.PrefixFrom(netip.AddrFrom4(a), bits).Masked()
		if seen[p.String()] {
			continue
		}
		seen[p.String()] = true
		lp := []uint32{0, 100, 4294967295}[w.pick(3, "localpref")]
		nc := []int{0, 0, 1, 3, 63}[w.pick(5, "ncommunities")]
		w.stats[fmt.Sprintf("probe.communities-%d", nc)]++
		var comms []community.BGPCommunity
		var cs []string
		for j := 0; j < nc; j++ {
			s := fmt.Sprintf("%d:%d", 64512+j%7, j)
			c, err := community.New(s)
			if err != nil {
				panic(err)
			}
			comms = append(comms, c)
			cs = append(cs, s)
		}
		sort.Strings(cs)
		ip := p.Addr().As4()
		ads = append(ads, &bgp.Advertisement{Prefix: &net.IPNet{IP: net.IP(ip[:]), Mask: net.CIDRMask(bits, 32)}, LocalPref: lp, Communities: comms})
		rs = append(rs, route{prefix: p.String(), lp: lp, comms: strings.Join(cs, ",")})
		w.stats[fmt.Sprintf("probe.prefix-len-%d", bits)]++
	}
	return rs, ads
}

func (w *gworld) workload(sm bgp.SessionManager) {
	ht := w.hold
	params := bgp.SessionParameters{PeerAddress: "10.9.0.1", PeerPort: 179, MyASN: w.myASN, PeerASN: w.peerASN, HoldTime: &ht, RouterID: w.routerID, CurrentNode: "node1", SessionName: "peer1"}
	sess, err := sm.NewSession(log.NewNopLogger(), params)
	if err != nil {
		panic(err)
	}
	nsets := 1 + w.pick(8, "nsets")
	for i := 0; i < nsets; i++ {
		switch w.pick(4, "pause") {
		case 1:
			simrt.Sleep(time.Duration(1+w.pick(900, "pause ms")) * time.Millisecond)
		case 2:
			simrt.Sleep(time.Duration(1+w.pick(40, "pause s")) * time.Second)
		case 3:
			simrt.Yield("workload")
		}
		var rs []route
		var ads []*bgp.Advertisement
		if i > 0 && w.pick(5, "repeat set") == 0 {
			rs = w.last // identical duplicate: re-create the advertisements
			for _, r := range rs {
				p := netip.MustParsePrefix(r.prefix)
				ip := p.Addr().As4()
				var comms []community.BGPCommunity
				if r.comms != "" {
					for _, s := range strings.Split(r.comms, ",") {
						c, _ := community.New(s)
						comms = append(comms, c)
					}
				}
				ads = append(ads, &bgp.Advertisement{Prefix: &net.IPNet{IP: net.IP(ip[:]), Mask: net.CIDRMask(p.Bits(), 32)}, LocalPref: r.lp, Communities: comms})
			}
		} else {
			rs, ads = w.genRoutes()
		}
		w.sets = append(w.sets, rs)
		w.last = rs
		w.s.Event("Set(%v)", rs)
		if w.current() == nil {
			w.stat("probe.set-while-not-established")
		}
		if len(rs) == 0 {
			w.stat("probe.empty-set-requested")
		}
		if err := sess.Set(ads...); err != nil {
			panic(fmt.Sprintf("Set refused a valid advertisement set: %v", err))
		}
	}
	if cm := w.pick(8, "close at end"); cm < 3 {
		if cm == 2 {
			// Close while a connection attempt / handshake is in flight (if one comes up within a minute)
			w.s.Park(&simrt.Op{Kind: "await-handshake", Obj: "", Deadline: time.Now().Add(time.Minute), Enabled: func() bool { return w.handshakes > 0 }})
			if w.handshakes > 0 {
				w.stat("probe.close-during-a-handshake")
			}
		} else {
			simrt.Sleep(time.Duration(w.pick(3000, "before close ms")) * time.Millisecond)
		}
		_ = sess.Close()
		w.closed = true
		w.closeDials = simnet.Dials
		w.closeBytes = w.totalWritten()
		w.s.Event("Close() returned: %d dials, %d bytes so far", w.closeDials, w.closeBytes)
	}
	w.faultsOff = true
	w.workDone = true
	w.doneAt = simrt.Now()
}

func sameRoutes(rib map[string]route, want []route, ibgp bool) bool {
	if len(rib) != len(want) {
		return false
	}
	for _, r := range want {
		x := r
		if !ibgp {
			x.lp = 0
		}
		if rib[r.prefix] != x {
			return false
		}
	}
	return true
}

func (w *gworld) current() *peerConn {
	for i := len(w.conns) - 1; i >= 0; i-- {
		if w.conns[i].established && !w.conns[i].client.Closed() && !w.conns[i].closedByPeer {
			return w.conns[i]
		}
	}
	return nil
}

func gnativeRun(env *runner.Env) (res *runner.Result) {
	if strings.Contains(env.Variant, "openfuzz") {
		return gopenRun(env)
	}
	w := &gworld{env: env, ch: env.Ch, stats: map[string]int64{}}
	res = &runner.Result{Stats: w.stats}
	defer func() {
		simrt.Active = nil
		simrt.SelectOrder = nil
		simrt.MapOrder = nil
	}()
	bubble := func(t *testing.T) {
		simrt.SetEpoch()
		s := simrt.NewSched(func(n int, l string) int { return w.ch.Intn(n, l) })
		s.Verbose = env.Verbose
		w.s = s
		simrt.Active = s
		simrt.SelectOrder = func(n int) int { return w.ch.Intn(n, "select order") }
		simrt.MapOrder = func(n int) []int { return w.ch.Perm(n, "map order") }
		simnet.Dials = 0
		simnet.Dialer = w.dial
		// parameters of the run
		w.myASN = []uint32{64512, 65535, 65536, 4200000000, 1}[w.pick(5, "my asn")]
		w.ibgp = w.pick(2, "ibgp") == 0
		w.peerASN = w.myASN
		if !w.ibgp {
			w.peerASN = []uint32{64601, 65537, 23456, 4200000001}[w.pick(4, "peer asn")]
		}
		w.peerAS4 = w.pick(4, "peer 4-byte capable") != 0
		if w.peerASN > 65535 {
			w.peerAS4 = true // a speaker with a 4-byte AS number necessarily announces the capability
		}
		if w.myASN > 65535 && !w.peerAS4 && env.On("C17") && w.pick(4, "allow 4-byte AS towards 2-byte peer") != 0 {
			w.peerAS4 = true // mostly avoid the combination the session (rightly) refuses forever
		}
		w.varyAS4 = w.pick(3, "vary 4-byte capability per connection") == 0
		w.hold = []time.Duration{90 * time.Second, 3 * time.Second, 30 * time.Second}[w.pick(3, "hold time")]
		w.localIP = net.IPv4(10, 0, 0, 2).To4() // the kernel hands out 4-byte addresses for IPv4 sockets
		if w.pick(2, "router id given") == 1 {
			w.routerID = net.IPv4(1, 1, 1, 1)
		}
		if w.pick(12, "stall knob") == 0 {
			s.StallP = 8
		}
		s.Event("params myASN=%d peerASN=%d ibgp=%v peerAS4=%v hold=%v routerID=%v", w.myASN, w.peerASN, w.ibgp, w.peerAS4, w.hold, w.routerID)
		w.stats[fmt.Sprintf("probe.my-asn-%d", w.myASN)]++
		if w.ibgp {
			w.stat("probe.ibgp-session")
		} else {
			w.stat("probe.ebgp-session")
		}
		sm := NewSessionManager(log.NewNopLogger())
		s.GoNamed("workload", false, func() { w.workload(sm) })
		unreachable := w.myASN > 65535 && !w.peerAS4
		done := func() bool {
			if w.viol != nil {
				return true
			}
			if !w.workDone {
				return false
			}
			now := simrt.Now()
			if w.closed {
				return now > w.doneAt+10*time.Minute
			}
			if cur := w.current(); cur != nil && sameRoutes(cur.rib, w.last, w.ibgp) && cur.client.Pending() == 0 {
				if !w.converged {
					w.converged, w.convAt = true, now
					if !w.convCounted {
						w.convCounted = true
						w.stat("probe.converged")
						if w.lastFault > 0 {
							w.stat("probe.converged-after-faults")
						}
						if cur.id > 1 {
							w.stat("probe.converged-on-a-reconnected-session")
						}
					}
				}
				return now > w.convAt+w.hold // stay a little longer: nothing may undo the convergence
			}
			w.converged = false
			return now > w.doneAt+5*time.Minute+15*time.Second
		}
		reason := s.Run(done, 60000, 3*time.Hour)
		if w.viol == nil && reason != "" && reason != "time limit" {
			if strings.HasPrefix(reason, "deadlock") && w.workDone {
				// nothing left to do at all is fine when the session was closed
				if !w.closed {
					w.violate("C17", "stuck", "", "the session stopped making progress: "+reason)
				}
			} else if reason == "step budget" {
				w.stat("run-step-budget")
			} else if !w.workDone {
				w.violate("C17", "set-or-close-blocked", "", "a Set/Close call never returned: "+reason)
			}
		}
		if w.viol == nil && w.workDone && env.On("C17") {
			switch {
			case w.closed:
				w.stat("probe.silence-after-close-checked")
				if simnet.Dials != w.closeDials || w.totalWritten() != w.closeBytes {
					w.violate("C17", "activity-after-close", "", fmt.Sprintf("after Close returned the session dialled %d more time(s) and wrote %d more byte(s)", simnet.Dials-w.closeDials, w.totalWritten()-w.closeBytes))
				}
			case unreachable:
				w.stat("probe.4-byte-asn-towards-2-byte-peer")
			default:
				cur := w.current()
				if cur == nil || !sameRoutes(cur.rib, w.last, w.ibgp) {
					got := "no established connection"
					if cur != nil {
						got = fmt.Sprintf("connection %d has %v", cur.id, cur.rib)
					}
					sig := ""
					if !w.ibgp && !w.peerAS4 {
						// nothing listed yet
					}
					w.violate("C17", "no-convergence", sig, fmt.Sprintf("5 simulated minutes after the last fault and the last Set the peer's table differs from the requested set %v: %s (connections: %d)", w.last, got, len(w.conns)))
				}
			}
		}
		res.Violation = w.viol
		res.Steps = s.Steps
		res.SimTime = simrt.Now()
		res.SchedHash = s.Hash
		res.NonTrivial = len(w.conns) > 0
		res.Log = s.Log
		for k, v := range s.Released {
			w.stats["released."+k] += int64(v)
		}
		w.stats["connections"] += int64(len(w.conns))
		s.Kill()
	}
	func() {
		defer func() {
			if r := recover(); r != nil {
				msg := fmt.Sprint(r)
				if strings.Contains(msg, "deadlock") && strings.Contains(msg, "bubble") {
					if res.Steps == 0 {
						panic("the bubble ended before the simulation ran: " + msg)
					}
					return // goroutines left blocked at the end of the bubble
				}
				panic(r)
			}
		}()
		synctest.Test(curT, bubble)
	}()
	return res
}

func TestVerifGnative(t *testing.T) {
	if os.Getenv("VERIF_MODE") == "" {
		t.Skip("verification harness: driven by /verif/bin/verifcheck")
	}
	curT = t
	if devnull, err := os.OpenFile(os.DevNull, os.O_WRONLY, 0); err == nil {
		os.Stdout = devnull // readOpen prints every OPEN it parses
	}
	if code := runner.Main("gnative", gnativeRun); code != 0 {
		t.Fatalf("runner exit %d", code)
	}
}
