//go:build verif

package native

// The OPEN reader as a stream consumer (C16, second half): generated OPEN messages (well-formed,
// and with inconsistent option/capability lengths, wrong markers, truncations, garbage) are
// delivered in arbitrary fragments and followed immediately by a KEEPALIVE, then the peer goes
// silent.  readOpen must return (no panic), must not consume a byte beyond the announced message
// length, must not block past the delivery of the announced bytes, and must report ASN (the
// 4-byte capability taking precedence), hold time and capabilities of well-formed messages.

import (
	"encoding/binary"
	"fmt"
	"strings"
	"testing"
	"testing/synctest"
	"time"

	"go.universe.tf/metallb/internal/verifsim/bgpwire"
	"go.universe.tf/metallb/internal/verifsim/runner"
	"go.universe.tf/metallb/internal/verifsim/simnet"
	"go.universe.tf/metallb/internal/verifsim/simrt"
)

func gopenRun(env *runner.Env) (res *runner.Result) {
	stats := map[string]int64{}
	res = &runner.Result{Stats: stats}
	ch := env.Ch
	pick := func(n int, l string) int { return ch.Intn(n, l) }
	defer func() { simrt.Active, simrt.SelectOrder, simrt.MapOrder = nil, nil, nil }()
	bubble := func(t *testing.T) {
		simrt.SetEpoch()
		s := simrt.NewSched(func(n int, l string) int { return ch.Intn(n, l) })
		s.Verbose = env.Verbose
		simrt.Active = s
		violate := func(inv, msg string) {
			if res.Violation == nil {
				res.Violation = &runner.Violation{Property: "C16", Invariant: inv, Message: msg}
				s.Event("VIOLATION C16/%s: %s", inv, msg)
			}
		}
		// ---- the message ----
		asn := []uint32{1, 64512, 65535, 65536, 4200000000}[pick(5, "asn")]
		as16 := uint16(asn)
		if asn > 65535 {
			as16 = 23456
		}
		hold := []uint16{0, 3, 90, 65535}[pick(4, "hold")]
		var caps []byte
		has4, mp4, mp6 := false, false, false
		order := pick(6, "cap order")
		parts := [][]byte{}
		if pick(3, "as4 cap") != 0 || asn > 65535 {
			parts = append(parts, bgpwire.CapAS4(asn))
			has4 = true
		}
		if pick(2, "mp4 cap") == 1 {
			parts = append(parts, bgpwire.CapMP(1, 1))
			mp4 = true
		}
		if pick(2, "mp6 cap") == 1 {
			parts = append(parts, bgpwire.CapMP(2, 1))
			mp6 = true
		}
		if pick(2, "unknown cap") == 1 {
			parts = append(parts, bgpwire.CapOther(2+pick(60, "cap code")+2, pick(6, "cap len")))
		}
		for i := range parts {
			caps = append(caps, parts[(i+order)%len(parts)]...)
		}
		msg := bgpwire.EncodeOpen(as16, hold, [4]byte{10, 9, 0, 1}, caps)
		wellFormed := true
		mutation := "none"
		switch pick(9, "mutation") {
		case 1:
			mutation = "optslen+"
			msg[28] += byte(1 + pick(40, "by"))
			wellFormed = false
		case 2:
			if msg[28] > 0 {
				mutation = "optslen-"
				msg[28] -= byte(1 + pick(int(msg[28]), "by"))
				wellFormed = false
			}
		case 3:
			if len(msg) > 31 {
				mutation = "optionlen+"
				msg[30] += byte(1 + pick(40, "by"))
				wellFormed = false
			}
		case 4:
			if len(msg) > 33 {
				mutation = "caplen+"
				msg[32] += byte(1 + pick(40, "by"))
				wellFormed = false
			}
		case 5:
			mutation = "marker"
			msg[pick(16, "marker byte")] = 0
			wellFormed = false
		case 6:
			mutation = "msglen+"
			binary.BigEndian.PutUint16(msg[16:18], uint16(len(msg)+1+pick(30, "by")))
			wellFormed = false
		case 7:
			mutation = "garbage-body"
			for i := 19; i < len(msg); i++ {
				msg[i] = byte(pick(256, "byte"))
			}
			wellFormed = false
		case 8:
			mutation = "hold-1"
			binary.BigEndian.PutUint16(msg[22:24], uint16(1+pick(2, "hold")))
			wellFormed = false
		}
		announced := int(binary.BigEndian.Uint16(msg[16:18]))
		markerOK := true
		for i := 0; i < 16; i++ {
			if msg[i] != 0xff {
				markerOK = false
			}
		}
		stream := append(append([]byte{}, msg...), bgpwire.EncodeKeepalive()...)
		stream = append(stream, bgpwire.EncodeKeepalive()...)
		s.Event("OPEN asn=%d hold=%d caps=%x mutation=%s announced=%d actual=%d", asn, hold, caps, mutation, announced, len(msg))
		client, server := simnet.Pipe("open", 1<<16, []byte{10, 0, 0, 2})
		if pick(3, "fragment") != 0 {
			client.Fragment = func(avail int) int { return 1 + pick(avail, "fragment") }
		}
		deadline := time.Now().Add(10 * time.Second)
		_ = client.SetDeadline(deadline)
		var got *openResult
		var gerr error
		returned := false
		var returnedAt time.Duration
		delivered := 0
		s.GoNamed("reader", false, func() {
			defer func() {
				if r := recover(); r != nil {
					violate("readopen-panics", fmt.Sprintf("readOpen panicked on %x: %v", msg, r))
					returned = true
				}
			}()
			got, gerr = readOpen(client)
			returned, returnedAt = true, simrt.Now()
		})
		s.GoNamed("feeder", true, func() {
			rest := stream
			for len(rest) > 0 {
				n := 1 + pick(len(rest), "chunk")
				if _, err := server.Write(rest[:n]); err != nil {
					return
				}
				delivered += n
				rest = rest[n:]
				if pick(4, "feeder pause") == 0 {
					simrt.Sleep(time.Duration(1+pick(500, "ms")) * time.Millisecond)
				}
			}
		})
		reason := s.Run(func() bool { return returned || res.Violation != nil }, 20000, 30*time.Second)
		if res.Violation == nil {
			limit := announced
			if !markerOK || limit < 19 {
				limit = 19
			}
			switch {
			case !returned:
				violate("readopen-hangs", fmt.Sprintf("readOpen did not return within 30 simulated seconds (%s) on %x", reason, msg))
			case client.BytesRead > limit:
				violate("readopen-overconsumes", fmt.Sprintf("readOpen consumed %d bytes of the stream, the message announces %d (mutation %s): %x", client.BytesRead, announced, mutation, msg))
			case returnedAt >= 10*time.Second && delivered >= limit:
				violate("readopen-blocks-past-delivery", fmt.Sprintf("all %d announced bytes (and more) were delivered, yet readOpen only returned at the connect deadline (mutation %s): %x", announced, mutation, msg))
			case wellFormed && gerr != nil:
				violate("readopen-rejects-wellformed", fmt.Sprintf("well-formed OPEN %x rejected: %v", msg, gerr))
			case wellFormed:
				if got.asn != asn || got.holdTime != time.Duration(hold)*time.Second || got.fbasn != has4 || got.mp4 != mp4 || got.mp6 != mp6 {
					violate("readopen-result", fmt.Sprintf("OPEN %x: reported asn=%d hold=%v fbasn=%v mp4=%v mp6=%v, sent asn=%d hold=%ds as4cap=%v mp4=%v mp6=%v", msg, got.asn, got.holdTime, got.fbasn, got.mp4, got.mp6, asn, hold, has4, mp4, mp6))
				}
			}
		}
		stats["probe.open-mutation-"+mutation]++
		if gerr != nil {
			stats["probe.open-rejected"]++
		} else {
			stats["probe.open-accepted"]++
		}
		res.Steps = s.Steps
		res.SimTime = simrt.Now()
		res.SchedHash = s.Hash
		res.NonTrivial = true
		res.Log = s.Log
		s.Kill()
	}
	func() {
		defer func() {
			if r := recover(); r != nil {
				if m := fmt.Sprint(r); strings.Contains(m, "deadlock") && strings.Contains(m, "bubble") {
					if res.Steps == 0 {
						panic("the bubble ended before the simulation ran: " + m)
					}
					return
				}
				panic(r)
			}
		}()
		synctest.Test(curT, bubble)
	}()
	return res
}
