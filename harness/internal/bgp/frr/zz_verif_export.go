//go:build verif

package frr

import (
	"github.com/go-kit/log"

	"go.universe.tf/metallb/internal/bgp"
	"go.universe.tf/metallb/internal/logging"
)

// VerifNewSyncSessionManager builds the real FRR session manager without its debouncer and
// reload-validator goroutines (K-spk, DESIGN.md §3.2 backend iii): configuration requests pile up
// in a buffered channel; drain renders the most recent one with the real templates and returns
// the frr.conf text (ok=false when nothing was requested since the last drain).
func VerifNewSyncSessionManager(l log.Logger) (bgp.SessionManager, func() (text string, ok bool, err error)) {
	res := &sessionManager{
		sessions:     map[string]*session{},
		bfdProfiles:  []BFDProfile{},
		reloadConfig: make(chan reloadEvent, 1<<14),
		logLevel:     logLevelToFRR(logging.LevelInfo),
	}
	drain := func() (string, bool, error) {
		var last *frrConfig
		for {
			select {
			case ev := <-res.reloadConfig:
				if !ev.useOld {
					last = ev.config
				}
				continue
			default:
			}
			break
		}
		if last == nil {
			return "", false, nil
		}
		text, err := templateConfig(last)
		return text, true, err
	}
	return res, drain
}
