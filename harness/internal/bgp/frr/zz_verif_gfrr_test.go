//go:build verif

package frr

// G-frr: the FRR-mode delivery pipeline under the goroutine engine (DESIGN.md §3.5).
// Real: NewSessionManager with its debouncer and reloadValidator goroutines, NewSession / Set /
// Close / SyncBFDProfiles / SyncExtraInfo, createConfig, templateConfig,
// generateAndReloadConfigFile (sources rewritten by simbuild: sync, go, select, channel sends,
// os.WriteFile/os.ReadFile -> simfs).  Simulated: the configuration and status files, the
// reloader signal (var reloadConfig), the FRR reloader (asynchronous task that reads the file,
// succeeds or fails, writes the status file), FRR itself (frrinterp).

import (
	"errors"
	"fmt"
	"os"
	"sort"
	"strings"
	"testing"
	"testing/synctest"
	"time"

	"github.com/go-kit/log"
	"go.universe.tf/metallb/internal/bgp"
	metallbconfig "go.universe.tf/metallb/internal/config"
	"go.universe.tf/metallb/internal/logging"
	"go.universe.tf/metallb/internal/verifsim/bgpgen"
	"go.universe.tf/metallb/internal/verifsim/bgpmodel"
	"go.universe.tf/metallb/internal/verifsim/choice"
	"go.universe.tf/metallb/internal/verifsim/frrinterp"
	"go.universe.tf/metallb/internal/verifsim/runner"
	"go.universe.tf/metallb/internal/verifsim/simfs"
	"go.universe.tf/metallb/internal/verifsim/simrt"
)

var curT *testing.T


type submission struct {
	extra    string  // extra configuration text in force
	bfdRI    *uint32 // receive interval of the BFD profile in force (nil: none)
	idx      int
	useOld   bool
	text     string
	model    *bgpmodel.State
	startAt  time.Duration
	doneAt   time.Duration
	done     bool
	task     string
}

type attempt struct {
	at      time.Duration
	text    string
	signal  bool // the reloader was signalled
	lastRet int  // index of the latest submission whose hand-over had completed when the attempt started
	lastStarted int
}

type fworld struct {
	textByKey   map[string]string               // requested state -> text, this run
	paramsByKey map[string]bgp.SessionParameters // model session key -> the parameters it was created with
	env   *runner.Env
	ch    *choice.Chooser
	s     *simrt.Sched
	stats map[string]int64
	viol  *runner.Violation
	trouble string

	subs     []*submission
	attempts []*attempt
	pending  map[string]func(*bgpmodel.State) // per task: model change of the operation in progress
	model    *bgpmodel.State
	running  string // what FRR runs
	runningSet bool
	reloads  int
	faultsOn bool
	lastFault time.Duration
	workDone  int
	nworkers  int
	doneAt    time.Duration
	debounce, failure time.Duration
	stamp int
	marker int
}

func (w *fworld) stat(n string) { w.stats[n]++ }
func (w *fworld) pick(n int, l string) int { return w.ch.Intn(n, l) }

func (w *fworld) violate(prop, inv, msg string) {
	if !w.env.On(prop) {
		return
	}
	if w.viol == nil {
		w.viol = &runner.Violation{Property: prop, Invariant: inv, Message: msg}
		w.s.Event("VIOLATION %s/%s: %s", prop, inv, msg)
	}
}

func (w *fworld) lastSubmitted() *submission {
	for i := len(w.subs) - 1; i >= 0; i-- {
		if !w.subs[i].useOld {
			return w.subs[i]
		}
	}
	return nil
}

func (w *fworld) onSend(v any, done bool) {
	ev, ok := v.(reloadEvent)
	if !ok {
		return
	}
	cur := "?"
	if t := w.s.Current(); t != nil {
		cur = t.Name
	}
	if !done {
		sub := &submission{idx: len(w.subs), useOld: ev.useOld, startAt: simrt.Now(), task: cur}
		if !ev.useOld {
			text, err := templateConfig(ev.config)
			if err != nil {
				w.trouble = "templateConfig failed in the harness: " + err.Error()
			}
			sub.text = text
			if f := w.pending[cur]; f != nil {
				f(w.model)
				delete(w.pending, cur)
			}
			sub.model = w.model.Clone()
			// determinism: one text per requested state (within this run and across the runs of the process)
			sub.extra = ev.config.ExtraConfig
			for _, p := range ev.config.BFDProfiles {
				if p.ReceiveInterval != nil {
					v := *p.ReceiveInterval
					sub.bfdRI = &v
				} else {
					z := uint32(0)
					sub.bfdRI = &z
				}
			}
			bfd := ""
			for _, p := range ev.config.BFDProfiles {
				bfd += p.Name
				if p.ReceiveInterval != nil {
					bfd += fmt.Sprint(*p.ReceiveInterval)
				}
			}
			// determinism inside the run: one text per requested state (the comparison with other
			// creation orders is made after the run, see freshRenderCheck)
			key := sub.model.Key() + "|" + ev.config.ExtraConfig + "|" + bfd
			if w.textByKey == nil {
				w.textByKey = map[string]string{}
			}
			if old, seen := w.textByKey[key]; seen && old != text {
				w.violate("C14", "text-not-a-function-of-the-session-set", fmt.Sprintf("the same set of sessions and advertisements produced two different configurations within one run: first differing line: %s", firstDiff(old, text)))
			} else if !seen {
				w.textByKey[key] = text
			}
		}
		w.subs = append(w.subs, sub)
		w.s.Event("submit #%d useOld=%v by %s", sub.idx, sub.useOld, cur)
		if sub.useOld {
			w.stat("probe.re-apply-request-from-the-validator")
		}
		return
	}
	for i := len(w.subs) - 1; i >= 0; i-- {
		if w.subs[i].task == cur && !w.subs[i].done {
			w.subs[i].done, w.subs[i].doneAt = true, simrt.Now()
			break
		}
	}
}

func firstDiff(a, b string) string {
	la, lb := strings.Split(a, "\n"), strings.Split(b, "\n")
	for i := 0; i < len(la) && i < len(lb); i++ {
		if la[i] != lb[i] {
			return fmt.Sprintf("line %d: %q vs %q", i+1, la[i], lb[i])
		}
	}
	return fmt.Sprintf("%d vs %d lines", len(la), len(lb))
}

// reloadStub replaces `var reloadConfig`: it signals the simulated reloader.
func (w *fworld) reloadStub() error {
	w.s.Park(&simrt.Op{Kind: "signal-reloader", Obj: "", Enabled: func() bool { return true }})
	text := string(simfs.Files[configFileName])
	a := &attempt{at: simrt.Now(), text: text, lastRet: -1, lastStarted: len(w.subs) - 1}
	for i := len(w.subs) - 1; i >= 0; i-- {
		if w.subs[i].done && !w.subs[i].useOld {
			a.lastRet = i
			break
		}
	}
	if n := len(w.attempts); n > 0 {
		prev := w.attempts[n-1]
		if !prev.signal {
			w.stat("probe.attempt-after-a-failed-signal")
		}
		// submissions coalesced into this attempt
		k := 0
		for _, sub := range w.subs {
			if sub.startAt >= prev.at && sub.startAt <= a.at {
				k++
			}
		}
		if k >= 2 {
			w.stat("probe.attempt-coalesces-2-or-more-submissions")
		}
	}
	for _, sub := range w.subs {
		if !sub.done {
			w.stat("probe.attempt-while-a-submission-is-in-flight")
			break
		}
	}
	w.attempts = append(w.attempts, a)
	if a.lastRet >= 0 {
		w.stat("probe.stale-apply-clause-checked")
	}
	// C19: never an older configuration after a newer one was submitted
	if a.lastRet >= 0 {
		ok := false
		for j := a.lastRet; j < len(w.subs); j++ {
			if !w.subs[j].useOld && w.subs[j].text == text {
				ok = true
			}
		}
		if !ok {
			older := -1
			for j := 0; j < a.lastRet; j++ {
				if !w.subs[j].useOld && w.subs[j].text == text {
					older = j
				}
			}
			w.violate("C19", "stale-configuration-applied", fmt.Sprintf("reload attempt at %v hands FRR the configuration of submission #%d although submission #%d had already been handed over (latest started #%d)", a.at, older, a.lastRet, a.lastStarted))
		}
	}
	if w.faultsOn {
		switch w.pick(8, "signal outcome") {
		case 0:
			w.stat("fault.reloader-signal-fails")
			w.lastFault = simrt.Now()
			w.s.Event("reload attempt %d: signalling the reloader FAILS", len(w.attempts))
			return errors.New("simulated: no reloader pid")
		case 1:
			w.stat("fault.slow-signal")
			simrt.Sleep(time.Duration(100+w.pick(2000, "slow signal ms")) * time.Millisecond)
		}
	}
	a.signal = true
	n := len(w.attempts)
	w.s.Event("reload attempt %d: reloader signalled (%d bytes)", n, len(text))
	w.s.GoNamed(fmt.Sprintf("reloader%d", n), true, func() {
		simrt.Sleep(time.Duration(10+w.pick(800, "reloader ms")) * time.Millisecond)
		cur := string(simfs.Files[configFileName])
		w.stamp++
		whole := false
		for _, sub := range w.subs {
			if !sub.useOld && sub.text == cur {
				whole = true
			}
		}
		if !whole && simfs.WriteFault != nil {
			// the reloader found a half-written file (torn write fault): FRR refuses it
			w.stat("probe.reloader-read-torn-file")
			simfs.Files[statusFileName] = []byte(fmt.Sprintf("%d failure\n", w.stamp))
			w.lastFault = simrt.Now()
			w.s.Event("reloader%d: the file is torn, FRR refuses it (status failure)", n)
			return
		}
		if w.faultsOn && w.pick(6, "frr reload outcome") == 0 {
			w.stat("fault.frr-reload-fails")
			w.lastFault = simrt.Now()
			simfs.Files[statusFileName] = []byte(fmt.Sprintf("%d failure\n", w.stamp))
			w.s.Event("reloader%d: FRR refuses the configuration (status failure)", n)
			return
		}
		w.running, w.runningSet = cur, true
		w.reloads++
		simfs.Files[statusFileName] = []byte(fmt.Sprintf("%d success\n", w.stamp))
		w.s.Event("reloader%d: FRR runs the new configuration (%d bytes)", n, len(cur))
		w.checkApplied(cur)
	})
	return nil
}

// checkApplied is C14 at the observation point: the text FRR actually received.
func (w *fworld) checkApplied(text string) {
	if !w.env.On("C14") {
		return
	}
	var sub *submission
	for i := len(w.subs) - 1; i >= 0; i-- {
		if !w.subs[i].useOld && w.subs[i].text == text {
			sub = w.subs[i]
			break
		}
	}
	if sub == nil {
		w.violate("C14", "applied-text-never-submitted", "FRR received a configuration text that no submission rendered (torn or mixed write?)")
		return
	}
	cfg, err := frrinterp.Parse(text)
	if err != nil {
		w.trouble = "frrinterp: " + err.Error()
		return
	}
	got, problems := cfg.Denote()
	want := sub.model.Expected()
	if len(problems) > 0 {
		w.violate("C14", "configuration-problem", fmt.Sprintf("the generated configuration of submission #%d: %s", sub.idx, strings.Join(problems, "; ")))
		return
	}
	if g, e := got.Canonical(), want.Canonical(); g != e {
		w.violate("C14", "denotation-differs-from-request", fmt.Sprintf("submission #%d: interpreted configuration and request differ: %s\n--- interpreted\n%s--- requested\n%s", sub.idx, firstDiff(g, e), g, e))
	}
	w.stat("probe.applied-configuration-interpreted")
}

// ---- workload ----

type ownedSession struct {
	key   string
	ms    *bgpmodel.Session
	sess  bgp.Session
	alive bool
}

func (w *fworld) submitter(slot int, sm bgp.SessionManager) {
	me := w.s.Current().Name
	var owned []*ownedSession
	nops := 2 + w.pick(10, "nops")
	nsess := 0
	for i := 0; i < nops && w.viol == nil; i++ {
		switch w.pick(5, "pause") {
		case 1:
			simrt.Sleep(time.Duration(1+w.pick(200, "pause ms")) * time.Millisecond) // inside the debounce window
		case 2:
			simrt.Sleep(time.Duration(1+w.pick(8, "pause s")) * time.Second)
		case 3:
			simrt.Yield("submitter")
		}
		op := w.pick(10, "op")
		switch {
		case op < 3 || len(owned) == 0:
			if nsess >= 3 {
				continue
			}
			params, ms := bgpgen.Session(w.pick, slot, nsess, false)
			nsess++
			key := fmt.Sprintf("%d/%d", slot, nsess)
			if w.paramsByKey == nil {
				w.paramsByKey = map[string]bgp.SessionParameters{}
			}
			w.paramsByKey[key] = params
			w.pending[me] = func(st *bgpmodel.State) { st.Sessions[key] = ms }
			w.s.Event("%s: NewSession %s", me, params.SessionName)
			sess, err := sm.NewSession(log.NewNopLogger(), params)
			delete(w.pending, me)
			if err != nil {
				w.violate("C14", "consistent-request-refused", "NewSession for a new neighbor failed: "+err.Error())
				w.violate("C19", "consistent-request-refused", "NewSession for a new neighbor failed: "+err.Error())
				w.workDone++
				return
			}
			owned = append(owned, &ownedSession{key: key, ms: ms, sess: sess, alive: true})
		case op < 7:
			o := owned[w.pick(len(owned), "which session")]
			if !o.alive {
				continue
			}
			madvs, advs := bgpgen.Advs(w.pick, true)
			if i > 0 && w.pick(6, "identical resubmission") == 0 {
				madvs = nil // keep what is there: re-create identical advertisements
				advs = nil
				for _, a := range o.ms.Advs {
					advs = append(advs, bgpgen.ToAdvertisement(a))
					madvs = append(madvs, a)
				}
				w.stat("probe.identical-resubmission")
			}
			trial := *o.ms
			trial.Advs = madvs
			conflict := trial.Conflict()
			w.pending[me] = func(st *bgpmodel.State) { st.Sessions[o.key].Advs = madvs }
			w.s.Event("%s: Set(%s, %d advertisements)", me, o.key, len(advs))
			err := o.sess.Set(advs...)
			delete(w.pending, me)
			switch {
			case err != nil && conflict == "":
				w.violate("C14", "consistent-request-refused", "Set refused a consistent request: "+err.Error())
				w.violate("C19", "consistent-request-refused", "Set refused a consistent request: "+err.Error())
				w.workDone++
				return
			case err == nil && conflict != "":
				w.violate("C14", "conflicting-request-accepted", fmt.Sprintf("Set accepted two local preferences for %s on one session", conflict))
			case err != nil:
				w.stat("probe.conflicting-set-refused")
			default:
				o.ms.Advs = madvs
			}
		case op < 8:
			o := owned[w.pick(len(owned), "which session")]
			if !o.alive {
				continue
			}
			key := o.key
			w.pending[me] = func(st *bgpmodel.State) { delete(st.Sessions, key) }
			w.s.Event("%s: Close(%s)", me, key)
			if err := o.sess.Close(); err != nil {
				w.violate("C14", "consistent-request-refused", "Close failed: "+err.Error())
				w.violate("C19", "consistent-request-refused", "Close failed: "+err.Error())
				w.workDone++
				return
			}
			delete(w.pending, me)
			o.alive = false
		case op < 9:
			w.marker++
			m := w.marker
			w.s.Event("%s: SyncExtraInfo(marker %d)", me, m)
			if err := sm.SyncExtraInfo(fmt.Sprintf("! marker %d", m)); err != nil {
				w.violate("C14", "consistent-request-refused", "SyncExtraInfo failed: "+err.Error())
				w.violate("C19", "consistent-request-refused", "SyncExtraInfo failed: "+err.Error())
				w.workDone++
				return
			}
		default:
			ri := uint32(100 + w.pick(3, "bfd interval"))
			w.s.Event("%s: SyncBFDProfiles", me)
			if err := sm.SyncBFDProfiles(map[string]*metallbconfig.BFDProfile{"fast": {Name: "fast", ReceiveInterval: &ri}}); err != nil {
				w.violate("C14", "consistent-request-refused", "SyncBFDProfiles failed: "+err.Error())
				w.violate("C19", "consistent-request-refused", "SyncBFDProfiles failed: "+err.Error())
				w.workDone++
				return
			}
		}
	}
	w.workDone++
	if w.workDone == w.nworkers {
		w.faultsOn = false
		w.doneAt = simrt.Now()
	}
}

func gfrrRun(env *runner.Env) (res *runner.Result) {
	w := &fworld{env: env, ch: env.Ch, stats: map[string]int64{}, pending: map[string]func(*bgpmodel.State){}, model: bgpmodel.NewState()}
	res = &runner.Result{Stats: w.stats}
	defer func() {
		simrt.Active, simrt.SelectOrder, simrt.MapOrder, simrt.OnSend = nil, nil, nil, nil
	}()
	bubble := func(t *testing.T) {
		simrt.SetEpoch()
		s := simrt.NewSched(func(n int, l string) int { return w.ch.Intn(n, l) })
		s.Verbose = env.Verbose
		w.s = s
		simrt.Active = s
		simrt.SelectOrder = func(n int) int { return w.ch.Intn(n, "select order") }
		simrt.MapOrder = func(n int) []int { return w.ch.Perm(n, "map order") }
		simrt.OnSend = w.onSend
		simfs.Reset()
		w.debounce = []time.Duration{50 * time.Millisecond, 700 * time.Millisecond, 3 * time.Second}[w.pick(3, "debounce")]
		w.failure = []time.Duration{90 * time.Millisecond, 1300 * time.Millisecond, 5 * time.Second}[w.pick(3, "failure timeout")]
		debounceTimeout, failureTimeout = w.debounce, w.failure
		osHostname = func() (string, error) { return "host", nil }
		reloadConfig = w.reloadStub
		w.faultsOn = w.pick(3, "faults") != 0
		if w.faultsOn && w.pick(3, "file faults") == 0 {
			simfs.WriteFault = func(name string, data []byte) string {
				if !w.faultsOn || name != configFileName {
					return ""
				}
				switch w.pick(8, "write outcome") {
				case 0:
					w.stat("fault.config-write-fails")
					w.lastFault = simrt.Now()
					return "fail"
				case 1:
					w.stat("fault.config-write-torn")
					w.lastFault = simrt.Now()
					return "torn"
				}
				return ""
			}
		}
		s.Event("params debounce=%v failure=%v faults=%v", w.debounce, w.failure, w.faultsOn)
		sm := NewSessionManager(log.NewNopLogger(), logging.LevelInfo)
		w.nworkers = 1 + w.pick(3, "submitters")
		for i := 0; i < w.nworkers; i++ {
			i := i
			s.GoNamed(fmt.Sprintf("submitter%d", i+1), false, func() { w.submitter(i, sm) })
		}
		settle := 35*time.Second + w.debounce + w.failure + 5*time.Second
		converged := func() bool {
			last := w.lastSubmitted()
			return last == nil || (w.runningSet && w.running == last.text)
		}
		done := func() bool {
			if w.viol != nil || w.trouble != "" {
				return true
			}
			if w.workDone < w.nworkers {
				return false
			}
			since := w.doneAt
			if w.lastFault > since {
				since = w.lastFault
			}
			// stop once converged and calm for a while, or when the liveness bound has passed
			return simrt.Now() > since+settle
		}
		reason := s.Run(done, 80000, time.Hour)
		if w.viol == nil && w.trouble == "" {
			switch {
			case strings.HasPrefix(reason, "panic"):
				if strings.Contains(reason, "zz_verif") {
					w.trouble = reason
				} else {
					w.violate(firstOn(env), "panic-in-metallb", reason)
				}
			case w.workDone < w.nworkers:
				w.violate("C19", "submitter-blocked", fmt.Sprintf("a configuration update call never returned (%s)", reason))
			case !converged():
				last := w.lastSubmitted()
				w.violate("C19", "latest-configuration-not-applied", fmt.Sprintf("%v after the last fault and the last submission FRR does not run the most recently submitted configuration (#%d); attempts=%d reloads=%d; running differs at %s", settle, last.idx, len(w.attempts), w.reloads, firstDiff(w.running, last.text)))
			}
		}
		if w.viol == nil && w.trouble == "" && w.workDone == w.nworkers && converged() {
			w.stat("probe.latest-configuration-applied-at-the-end")
			if w.lastFault > 0 {
				w.stat("probe.converged-after-faults")
			}
		}
		if w.viol == nil && w.trouble == "" && env.On("C19") {
			w.checkHistory()
		}
		res.Violation = w.viol
		res.Steps = s.Steps
		res.SimTime = simrt.Now()
		res.SchedHash = s.Hash
		res.NonTrivial = len(w.attempts) > 0
		res.Log = s.Log
		w.stats["submissions"] += int64(len(w.subs))
		w.stats["reload-attempts"] += int64(len(w.attempts))
		w.stats["frr-reloads"] += int64(w.reloads)
		s.Kill()
	}
	func() {
		defer func() {
			if r := recover(); r != nil {
				if m := fmt.Sprint(r); strings.Contains(m, "deadlock") && strings.Contains(m, "bubble") {
					if res.Steps == 0 {
						panic("the bubble ended before the simulation ran: " + m)
					}
					return
				}
				panic(r)
			}
		}()
		synctest.Test(curT, bubble)
	}()
	if w.trouble != "" {
		panic("harness trouble: " + w.trouble)
	}
	if res.Violation == nil && env.On("C14") {
		simrt.Active, simrt.SelectOrder, simrt.OnSend = nil, nil, nil
		w.freshRenderCheck()
		res.Violation = w.viol
	}
	return res
}

// freshRenderCheck is the determinism clause of C14 in a replayable form: the requested state of a
// submission of this run is built once more on a fresh session manager (no goroutines) under a
// drawn creation order, advertisement order and map iteration order; the text must be byte
// identical to the one the run rendered.
func (w *fworld) freshRenderCheck() {
	var cands []*submission
	for _, sub := range w.subs {
		if !sub.useOld && sub.model != nil {
			cands = append(cands, sub)
		}
	}
	if len(cands) == 0 {
		return
	}
	picks := []*submission{cands[len(cands)-1]}
	if len(cands) > 1 {
		picks = append(picks, cands[w.pick(len(cands)-1, "fresh render of which submission")])
	}
	simrt.MapOrder = func(n int) []int { return w.ch.Perm(n, "fresh map order") }
	defer func() { simrt.MapOrder = nil }()
	for _, sub := range picks {
		sm, drain := VerifNewSyncSessionManager(log.NewNopLogger())
		keys := make([]string, 0, len(sub.model.Sessions))
		for k := range sub.model.Sessions {
			keys = append(keys, k)
		}
		sort.Strings(keys)
		// extra info and BFD profile at a drawn position among the sessions
		steps := len(keys)
		extraAt, bfdAt := w.pick(steps+1, "extra info position"), w.pick(steps+1, "bfd position")
		apply := func(i int) bool {
			if i == extraAt && sub.extra != "" {
				if err := sm.SyncExtraInfo(sub.extra); err != nil {
					w.trouble = "fresh render: " + err.Error()
					return false
				}
			}
			if i == bfdAt && sub.bfdRI != nil {
				prof := &metallbconfig.BFDProfile{Name: "fast"}
				if *sub.bfdRI != 0 {
					ri := *sub.bfdRI
					prof.ReceiveInterval = &ri
				}
				if err := sm.SyncBFDProfiles(map[string]*metallbconfig.BFDProfile{"fast": prof}); err != nil {
					w.trouble = "fresh render: " + err.Error()
					return false
				}
			}
			return true
		}
		order := w.ch.Perm(len(keys), "fresh creation order")
		ok := true
		for i, ki := range order {
			if !apply(i) {
				ok = false
				break
			}
			k := keys[ki]
			ms := sub.model.Sessions[k]
			sess, err := sm.NewSession(log.NewNopLogger(), w.paramsByKey[k])
			if err != nil {
				w.violate("C14", "fresh-render-refused", fmt.Sprintf("re-creating session %s of submission #%d on a fresh session manager failed: %v", k, sub.idx, err))
				return
			}
			var ads []*bgp.Advertisement
			for _, ai := range w.ch.Perm(len(ms.Advs), "fresh advertisement order") {
				ads = append(ads, bgpgen.ToAdvertisement(ms.Advs[ai]))
			}
			if err := sess.Set(ads...); err != nil {
				w.violate("C14", "fresh-render-refused", fmt.Sprintf("re-submitting the advertisements of session %s of submission #%d on a fresh session manager failed: %v", k, sub.idx, err))
				return
			}
		}
		if !ok || !apply(len(keys)) {
			panic("harness trouble: " + w.trouble)
		}
		text, have, err := drain()
		if err != nil {
			panic("harness trouble: fresh render: " + err.Error())
		}
		if !have {
			continue
		}
		w.stat("probe.fresh-render-compared")
		if text != sub.text {
			w.violate("C14", "text-depends-on-creation-or-map-order", fmt.Sprintf("submission #%d: the same sessions and advertisements, created in another order on a fresh session manager, render a different configuration: first differing line: %s", sub.idx, firstDiff(sub.text, text)))
			return
		}
	}
}

func firstOn(env *runner.Env) string {
	var ps []string
	for p := range env.Props {
		ps = append(ps, p)
	}
	sort.Strings(ps)
	if len(ps) == 0 {
		return "C19"
	}
	return ps[0]
}

// checkHistory evaluates the C19 clauses that need the whole history.
func (w *fworld) checkHistory() {
	// identical resubmission causes no reload; coalescing inside the debounce window
	for i := 1; i < len(w.attempts); i++ {
		prev, a := w.attempts[i-1], w.attempts[i]
		if !prev.signal {
			continue // a retry after a failed attempt is always justified
		}
		// submissions handed over between the two attempts
		justified := false
		var firstChange time.Duration
		have := false
		for _, sub := range w.subs {
			if sub.startAt < prev.at || sub.startAt > a.at {
				continue
			}
			if sub.useOld || sub.text != prev.text {
				justified = true
				if !have || sub.startAt < firstChange {
					firstChange, have = sub.startAt, true
				}
			}
		}
		// submissions that started before the previous attempt but were handed over after it
		for _, sub := range w.subs {
			if sub.startAt < prev.at && (!sub.done || sub.doneAt >= prev.at) && (sub.useOld || sub.text != prev.text) {
				justified = true
				have = false
			}
		}
		w.stat("probe.consecutive-attempts-compared")
		if !justified {
			w.violate("C19", "reload-without-change", fmt.Sprintf("reload attempt at %v although every update since the previous successful attempt (%v) was identical to it", a.at, prev.at))
			return
		}
		if have && a.at < firstChange+w.debounce-time.Millisecond {
			w.violate("C19", "debounce-window-not-respected", fmt.Sprintf("first changed update at %v, reload attempt already at %v (debounce %v)", firstChange, a.at, w.debounce))
			return
		}
	}
}

func TestVerifGfrr(t *testing.T) {
	if os.Getenv("VERIF_MODE") == "" {
		t.Skip("verification harness: driven by /verif/bin/verifcheck")
	}
	curT = t
	if code := runner.Main("gfrr", gfrrRun); code != 0 {
		t.Fatalf("runner exit %d", code)
	}
}
