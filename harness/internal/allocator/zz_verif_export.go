//go:build verif

package allocator

import (
	"fmt"
	"sort"
	"strings"
)

// VerifHolding is what the allocator has recorded for one service.
type VerifHolding struct {
	Pool  string
	IPs   []string
	Ports []string
	Key   string
}

// VerifHoldings returns the recorded allocations.
func (a *Allocator) VerifHoldings() map[string]VerifHolding {
	out := map[string]VerifHolding{}
	for svc, al := range a.allocated {
		h := VerifHolding{Pool: al.pool, Key: al.key.sharing + "|" + al.key.backend}
		for _, ip := range al.ips {
			h.IPs = append(h.IPs, ip.String())
		}
		for _, p := range al.ports {
			h.Ports = append(h.Ports, p.String())
		}
		out[svc] = h
	}
	return out
}

// VerifBookkeeping renders every bookkeeping map canonically (sorted), for comparison with a
// freshly rebuilt allocator.
func (a *Allocator) VerifBookkeeping() string {
	var sb strings.Builder
	keys := func(n int, at func(i int) string) []string {
		out := make([]string, n)
		for i := range out {
			out[i] = at(i)
		}
		sort.Strings(out)
		return out
	}
	_ = keys
	var lines []string
	for svc, al := range a.allocated {
		var ips, ports []string
		for _, ip := range al.ips {
			ips = append(ips, ip.String())
		}
		for _, p := range al.ports {
			ports = append(ports, p.String())
		}
		sort.Strings(ports)
		lines = append(lines, fmt.Sprintf("allocated %s pool=%s ips=%v ports=%v key=%q/%q", svc, al.pool, ips, ports, al.key.sharing, al.key.backend))
	}
	for ip, k := range a.sharingKeyForIP {
		lines = append(lines, fmt.Sprintf("sharingKeyForIP %s %q/%q", ip, k.sharing, k.backend))
	}
	for ip, m := range a.portsInUse {
		for p, svc := range m {
			lines = append(lines, fmt.Sprintf("portsInUse %s %s %s", ip, p, svc))
		}
		if len(m) == 0 {
			lines = append(lines, fmt.Sprintf("portsInUse %s <empty>", ip))
		}
	}
	for ip, m := range a.servicesOnIP {
		for svc, v := range m {
			lines = append(lines, fmt.Sprintf("servicesOnIP %s %s %v", ip, svc, v))
		}
	}
	dump := func(name string, mm map[string]map[string]int) {
		for pool, m := range mm {
			for ip, n := range m {
				lines = append(lines, fmt.Sprintf("%s %s %s %d", name, pool, ip, n))
			}
		}
	}
	dump("poolIPsInUse", a.poolIPsInUse)
	dump("poolIPV4InUse", a.poolIPV4InUse)
	dump("poolIPV6InUse", a.poolIPV6InUse)
	a.countersMutex.RLock()
	for pool, c := range a.poolToCounters {
		lines = append(lines, fmt.Sprintf("counters %s %+v", pool, c))
	}
	a.countersMutex.RUnlock()
	sort.Strings(lines)
	for _, l := range lines {
		sb.WriteString(l)
		sb.WriteByte('\n')
	}
	return sb.String()
}
