// verifcheck is the driver of every check: it rebuilds the simulation build of /repo's current
// working tree (simbuild rewrite + overlay), runs seeded simulated runs in parallel worker
// processes, verifies every reported violation by replaying its minimised file in a fresh
// process, and writes the evidence file.
//
//	exit 0: property held on everything explored (KNOWN-FINDING lines possible)
//	exit 1: VIOLATION property=<id> replay=<path>
//	exit 2: trouble in the machinery (build, rewrite, replay divergence, time-out) — never a verdict
package main

import (
	"encoding/binary"
	"encoding/json"
	"flag"
	"fmt"
	"os"
	"os/exec"
	"os/signal"
	"path/filepath"
	"sort"
	"strconv"
	"strings"
	"sync"
	"syscall"
	"time"
)

// repo is the tree the checks build from: /repo.  VERIF_REPO overrides it only for sensitivity
// runs against a scratch worktree carrying a seeded change (tools/detect_seeds.sh).
var repo = func() string {
	if r := os.Getenv("VERIF_REPO"); r != "" {
		return r
	}
	return "/repo"
}()

// verif is the framework root: the parent of the directory holding this executable (so that a
// snapshot of /verif run elsewhere uses its own files), /verif as a fallback.
var verif = func() string {
	if r := os.Getenv("VERIF_ROOT"); r != "" {
		return r
	}
	if exe, err := os.Executable(); err == nil {
		if d := filepath.Dir(filepath.Dir(exe)); d != "" {
			if _, err := os.Stat(filepath.Join(d, "sim", "runner", "runner.go")); err == nil {
				return d
			}
		}
	}
	return "/verif"
}()

const goBin = "/opt/veriftools/go1.26.8/bin/go"

type engine struct {
	Name     string
	TestPkg  string   // repo-relative dir of the in-package harness
	TestName string   // test function
	SimPkgs  []string // packages rewritten by simbuild
	Rules    string
	R2Pkgs   []string
	Subst    string // R4 substitution file (relative to /verif)
	Race     bool
	Harness  []string // repo-relative dirs with harness files under /verif/harness
	NoBuild  bool     // only produce the overlay (rewrite self-test)
	Skip     string   // harness files whose name contains this are left out (they need another engine's rewrites)
	StubTest []string // repo-relative dirs whose own _test.go files are replaced by stubs
}

type batch struct {
	Engine  string
	Variant string
	Runs    int // total runs (quick)
	RunsT   int // total runs (thorough)
	WallS   int // wall budget quick
	WallST  int
	Note    string
	Enum    bool // fault-point enumeration: Runs/RunsT count histories; every fault point of each is one run
}

type propDef struct {
	ID          string
	Level       string
	Batches     []batch
	Rule        string
	Assumptions []string
	Components  map[string]string
}

// scratchToRemove is the scratch directory of this invocation (removed on every exit path,
// including fatal and termination by a signal).
var scratchToRemove string

func fatal(code int, f string, a ...any) {
	fmt.Fprintf(os.Stderr, "verifcheck: "+f+"\n", a...)
	if scratchToRemove != "" {
		os.RemoveAll(scratchToRemove)
	}
	os.Exit(code)
}

func goEnv() []string {
	env := os.Environ()
	env = append(env, "GOFLAGS=-mod=mod", "GOPROXY=off", "GOSUMDB=off", "GOTOOLCHAIN=local", "GOWORK=off",
		"PATH=/opt/veriftools/go1.26.8/bin:"+os.Getenv("PATH"))
	return env
}

type build struct {
	scratch string
	bins    map[string]string
	counts  map[string]map[string]map[string]int
	mu      sync.Mutex
}

func copyFile(src, dst string) error {
	b, err := os.ReadFile(src)
	if err != nil {
		return err
	}
	return os.WriteFile(dst, b, 0o644)
}

// buildEngine produces the test binary of one engine from /repo's current working tree.
func (b *build) buildEngine(e engine) (string, error) {
	if p, ok := b.bins[e.Name]; ok {
		return p, nil
	}
	dir := filepath.Join(b.scratch, e.Name)
	if err := os.MkdirAll(dir, 0o755); err != nil {
		return "", err
	}
	overlay := map[string]string{}
	// 1. simbuild rewrite
	args := []string{"-repo", repo, "-out", filepath.Join(dir, "src"), "-pkgs", strings.Join(e.SimPkgs, ","), "-rules", e.Rules}
	if len(e.R2Pkgs) > 0 {
		args = append(args, "-r2pkgs", strings.Join(e.R2Pkgs, ","))
	}
	if e.Subst != "" {
		args = append(args, "-subst", filepath.Join(verif, e.Subst))
	}
	cmd := exec.Command(filepath.Join(verif, "bin", "simbuild"), args...)
	cmd.Env = goEnv()
	cmd.Stderr = os.Stderr
	out, err := cmd.Output()
	if err != nil {
		return "", fmt.Errorf("simbuild: %v", err)
	}
	var rep struct {
		Overlay map[string]string         `json:"overlay"`
		Counts  map[string]map[string]int `json:"counts"`
	}
	if err := json.Unmarshal(out, &rep); err != nil {
		return "", fmt.Errorf("simbuild output: %v", err)
	}
	for k, v := range rep.Overlay {
		overlay[k] = v
	}
	b.counts[e.Name] = map[string]map[string]int{}
	for k, v := range rep.Counts {
		b.counts[e.Name][k] = v
	}
	// 2. simulation library as packages inside the module
	simFiles, _ := filepath.Glob(filepath.Join(verif, "sim", "*", "*.go"))
	for _, f := range simFiles {
		rel, _ := filepath.Rel(filepath.Join(verif, "sim"), f)
		overlay[filepath.Join(repo, "internal", "verifsim", rel)] = f
	}
	// 3. harness files and export shims
	for _, h := range e.Harness {
		files, _ := filepath.Glob(filepath.Join(verif, "harness", h, "*.go"))
		for _, f := range files {
			if e.Skip != "" && strings.Contains(filepath.Base(f), e.Skip) {
				continue
			}
			overlay[filepath.Join(repo, h, filepath.Base(f))] = f
		}
	}
	// 4. the packages' own tests are stubbed out (Docker TestMain, helpers with side effects)
	for _, d := range e.StubTest {
		files, _ := filepath.Glob(filepath.Join(repo, d, "*_test.go"))
		pkgName := ""
		for _, f := range files {
			if pkgName == "" {
				src, _ := os.ReadFile(f)
				for _, line := range strings.Split(string(src), "\n") {
					if strings.HasPrefix(line, "package ") {
						pkgName = strings.Fields(line)[1]
						break
					}
				}
			}
		}
		for _, f := range files {
			src, _ := os.ReadFile(f)
			pn := pkgName
			for _, line := range strings.Split(string(src), "\n") {
				if strings.HasPrefix(line, "package ") {
					pn = strings.Fields(line)[1]
					break
				}
			}
			stub := filepath.Join(dir, "stub_"+strings.ReplaceAll(d, "/", "_")+"_"+filepath.Base(f))
			_ = os.WriteFile(stub, []byte("package "+pn+"\n"), 0o644)
			overlay[f] = stub
		}
	}
	ovPath := filepath.Join(dir, "overlay.json")
	ob, _ := json.MarshalIndent(map[string]any{"Replace": overlay}, "", " ")
	if err := os.WriteFile(ovPath, ob, 0o644); err != nil {
		return "", err
	}
	// 5. scratch go.mod/go.sum (never touch /repo's)
	modPath := filepath.Join(dir, "go.mod")
	mod, err := os.ReadFile(filepath.Join(repo, "go.mod"))
	if err != nil {
		return "", err
	}
	ms := string(mod)
	if !strings.Contains(ms, "github.com/anishathalye/porcupine") {
		ms += "\nrequire github.com/anishathalye/porcupine v1.3.0\n"
	}
	if err := os.WriteFile(modPath, []byte(ms), 0o644); err != nil {
		return "", err
	}
	sum, _ := os.ReadFile(filepath.Join(repo, "go.sum"))
	extra, _ := os.ReadFile(filepath.Join(verif, "sim", "extra.go.sum"))
	_ = os.WriteFile(filepath.Join(dir, "go.sum"), append(sum, extra...), 0o644)
	if e.NoBuild {
		return "", nil
	}
	bin := filepath.Join(dir, e.Name+".test")
	targs := []string{"test", "-c", "-tags", "verif", "-overlay", ovPath, "-modfile", modPath, "-vet=off", "-o", bin}
	if e.Race {
		targs = append(targs, "-race")
	}
	targs = append(targs, "./"+e.TestPkg)
	c := exec.Command(goBin, targs...)
	c.Dir = repo
	c.Env = goEnv()
	cout, err := c.CombinedOutput()
	if err != nil {
		return "", fmt.Errorf("go test -c failed:\n%s", cout)
	}
	b.bins[e.Name] = bin
	return bin, nil
}

type found struct {
	Violation struct {
		Property  string `json:"property"`
		Invariant string `json:"invariant"`
		Signature string `json:"signature"`
		Message   string `json:"message"`
	} `json:"violation"`
	Seed   uint64 `json:"seed"`
	Replay string `json:"replay"`
	Known  bool   `json:"known"`
}

type report struct {
	Engine     string           `json:"engine"`
	Runs       int              `json:"runs"`
	NonTrivial int              `json:"non_trivial"`
	WallS      float64          `json:"wall_s"`
	SimTimeS   float64          `json:"sim_time_s"`
	Steps      int64            `json:"steps"`
	Draws      int64            `json:"draws"`
	Stats      map[string]int64 `json:"stats"`
	Found      []found          `json:"found"`
	Samples    [][]string       `json:"samples"`
	Error      string           `json:"error"`
	Replayed   *struct {
		Property  string `json:"property"`
		Invariant string `json:"invariant"`
		Signature string `json:"signature"`
		Message   string `json:"message"`
	} `json:"replayed"`
	Diverged  string `json:"diverged"`
	EventHash string `json:"event_hash"`
}

func runWorker(bin, testName string, env map[string]string, timeout time.Duration) (*report, string, error) {
	outFile := env["VERIF_OUT"]
	cmd := exec.Command(bin, "-test.run", "^"+testName+"$", "-test.timeout", "0", "-test.count", "1")
	cmd.Env = os.Environ()
	for k, v := range env {
		cmd.Env = append(cmd.Env, k+"="+v)
	}
	cmd.Dir = filepath.Dir(bin)
	done := make(chan struct{})
	var out []byte
	var err error
	go func() { out, err = cmd.CombinedOutput(); close(done) }()
	select {
	case <-done:
	case <-time.After(timeout):
		_ = cmd.Process.Kill()
		<-done
		return nil, string(out), fmt.Errorf("worker timed out after %v", timeout)
	}
	if err != nil && env["VERIF_TOLERATE_EXIT"] == "" {
		return nil, string(out), fmt.Errorf("worker failed: %v", err)
	}
	b, rerr := os.ReadFile(outFile)
	if rerr != nil && err != nil {
		return nil, string(out), fmt.Errorf("worker failed: %v", err)
	}
	if rerr != nil {
		return nil, string(out), rerr
	}
	var r report
	if jerr := json.Unmarshal(b, &r); jerr != nil {
		return nil, string(out), jerr
	}
	if r.Error != "" {
		return &r, string(out), fmt.Errorf("worker reported: %s", r.Error)
	}
	return &r, string(out), nil
}

func main() {
	prop := flag.String("property", "", "property id")
	tier := flag.String("tier", "quick", "quick|thorough")
	seedFlag := flag.Int64("seed", -1, "seed (default: VERIF_SEED or 1)")
	workers := flag.Int("workers", 16, "parallel worker processes")
	replay := flag.String("replay", "", "replay file to re-execute")
	selftest := flag.String("selftest", "", "determinism|rewrite")
	keep := flag.Bool("keep", false, "keep scratch directory")
	scale := flag.Float64("scale", 1, "multiply run counts (development)")
	printTrace := flag.Bool("print", false, "with -replay: print the event trace")
	engineFilter := flag.String("engine", "", "with -selftest: only this engine")
	recordKnown := flag.Bool("record-known", false, "with -property: search for runs that manifest the listed known findings of the property and store their replay files under known/")
	trace := flag.Int64("trace", -1, "with -property: run the n-th run of the seed verbosely and print its event log")
	flag.Parse()
	if t := os.Getenv("VERIF_TIER"); t != "" && *tier == "quick" {
		*tier = t
	}
	seed := int64(1)
	if s := os.Getenv("VERIF_SEED"); s != "" {
		if v, err := strconv.ParseInt(s, 10, 64); err == nil {
			seed = v
		}
	}
	if *seedFlag >= 0 {
		seed = *seedFlag
	}
	if seed < 0 {
		seed = -seed
	}
	seed %= 1_000_000_000
	scratch, err := os.MkdirTemp("", "verifcheck-")
	if err != nil {
		fatal(2, "%v", err)
	}
	if !*keep {
		scratchToRemove = scratch
		defer os.RemoveAll(scratch)
		sigc := make(chan os.Signal, 1)
		signal.Notify(sigc, os.Interrupt, syscall.SIGTERM)
		go func() {
			<-sigc
			os.RemoveAll(scratch)
			os.Exit(2)
		}()
	} else {
		fmt.Fprintln(os.Stderr, "scratch:", scratch)
	}
	b := &build{scratch: scratch, bins: map[string]string{}, counts: map[string]map[string]map[string]int{}}
	code := 0
	switch {
	case *replay != "":
		code = doReplay(b, *replay, *printTrace)
	case *selftest != "":
		code = doSelftest(b, *selftest, seed, *workers, *engineFilter)
	case *prop != "" && *recordKnown:
		code = doRecordKnown(b, *prop, seed, *workers)
	case *prop != "" && *trace >= 0:
		code = doTrace(b, *prop, *tier, seed, *trace)
	case *prop != "":
		code = doCheck(b, *prop, *tier, seed, *workers, *scale)
	default:
		fatal(2, "need -property, -replay or -selftest")
	}
	if !*keep {
		os.RemoveAll(scratch)
	}
	os.Exit(code)
}

func engineByName(n string) (engine, bool) {
	for _, e := range engines {
		if e.Name == n {
			return e, true
		}
	}
	return engine{}, false
}

func doReplay(b *build, path string, print bool) int {
	if abs, err := filepath.Abs(path); err == nil {
		path = abs
	}
	raw, err := os.ReadFile(path)
	if err != nil {
		fatal(2, "%v", err)
	}
	var rf struct {
		Engine    string `json:"engine"`
		Property  string `json:"property"`
		Violation struct {
			Property, Invariant, Signature, Message string
		} `json:"violation"`
	}
	if err := json.Unmarshal(raw, &rf); err != nil {
		fatal(2, "replay file: %v", err)
	}
	e, ok := engineByName(rf.Engine)
	if !ok {
		fatal(2, "unknown engine %q", rf.Engine)
	}
	bin, err := b.buildEngine(e)
	if err != nil {
		fatal(2, "%v", err)
	}
	env := map[string]string{"VERIF_MODE": "replay", "VERIF_REPLAY": path, "VERIF_OUT": filepath.Join(b.scratch, "replay.json")}
	if e.Race {
		env["VERIF_TOLERATE_EXIT"] = "1"
	}
	if print {
		env["VERIF_PRINT"] = "1"
	}
	r, out, err := runWorker(bin, e.TestName, env, 30*time.Minute)
	if err != nil {
		fmt.Fprintln(os.Stderr, out)
		fatal(2, "%v", err)
	}
	if print {
		for _, s := range r.Samples {
			for _, l := range s {
				fmt.Println(l)
			}
		}
	}
	if r.Diverged != "" {
		fmt.Printf("replay diverged: %s\n", r.Diverged)
	}
	if r.Replayed == nil {
		fmt.Printf("replay of %s: no violation on this tree\n", path)
		return 0
	}
	fmt.Printf("replayed: %s/%s %s\n", r.Replayed.Property, r.Replayed.Invariant, r.Replayed.Message)
	fmt.Printf("VIOLATION property=%s replay=%s\n", r.Replayed.Property, path)
	return 1
}

func doTrace(b *build, id, tier string, seed, n int64) int {
	for _, p := range props {
		if p.ID != id {
			continue
		}
		bt := p.Batches[0]
		if bi := int(n / 100_000); bi < len(p.Batches) { // seeds of batch i start at i*100000
			bt = p.Batches[bi]
		}
		e, _ := engineByName(bt.Engine)
		bin, err := b.buildEngine(e)
		if err != nil {
			fatal(2, "%v", err)
		}
		cmd := exec.Command(bin, "-test.run", "^"+e.TestName+"$", "-test.timeout", "0")
		cmd.Env = append(os.Environ(), "VERIF_MODE=trace", "VERIF_SEED="+strconv.FormatInt(seed, 10), "VERIF_FIRST="+strconv.FormatInt(n, 10), "VERIF_PROPS="+id, "VERIF_TIER="+tier, "VERIF_VARIANT="+bt.Variant,
			"VERIF_KNOWN="+filepath.Join(verif, "known_findings.json"))
		cmd.Stdout, cmd.Stderr = os.Stdout, os.Stderr
		_ = cmd.Run()
		return 0
	}
	fatal(2, "no such property")
	return 2
}

type knownFinding struct {
	Property  string `json:"property"`
	Signature string `json:"signature"`
	Status    string `json:"status"`
	What      string `json:"what"`
	Replay    string `json:"replay,omitempty"`
}

func loadKnown() []knownFinding {
	var kf struct {
		Findings []knownFinding `json:"findings"`
	}
	b, err := os.ReadFile(filepath.Join(verif, "known_findings.json"))
	if err != nil {
		return nil
	}
	_ = json.Unmarshal(b, &kf)
	return kf.Findings
}

func sigFile(prop, sig string) string {
	r := strings.NewReplacer("/", "_", " ", "_")
	return filepath.Join(verif, "known", prop+"-"+r.Replace(sig)+".json")
}

// replayKnown re-executes the stored replay file of every listed finding of the property and
// prints a KNOWN-FINDING line for each one that still manifests.
func replayKnown(b *build, id string) int {
	n := 0
	for _, f := range loadKnown() {
		if f.Property != id {
			continue
		}
		path := sigFile(id, f.Signature)
		raw, err := os.ReadFile(path)
		if err != nil {
			// the same defect recorded through another property it affects
			alt, _ := filepath.Glob(strings.Replace(path, string(filepath.Separator)+id+"-", string(filepath.Separator)+"C??-", 1))
			if len(alt) == 0 {
				continue
			}
			sort.Strings(alt)
			path = alt[0]
			if raw, err = os.ReadFile(path); err != nil {
				continue
			}
		}
		var rf struct {
			Engine string `json:"engine"`
		}
		_ = json.Unmarshal(raw, &rf)
		e, ok := engineByName(rf.Engine)
		if !ok {
			continue
		}
		bin, err := b.buildEngine(e)
		if err != nil {
			fatal(2, "build of engine %s failed: %v", e.Name, err)
		}
		env := map[string]string{"VERIF_MODE": "replay", "VERIF_REPLAY": path, "VERIF_OUT": filepath.Join(b.scratch, "known.json")}
		if e.Race {
			env["VERIF_TOLERATE_EXIT"] = "1"
		}
		r, out, err := runWorker(bin, e.TestName, env, 20*time.Minute)
		if err != nil {
			fmt.Fprintln(os.Stderr, out)
			fatal(2, "replay of known finding %s failed: %v", path, err)
		}
		if (r.Replayed == nil || r.Replayed.Signature != f.Signature) && r.Diverged != "" {
			// the recorded decisions no longer line up with what the harness asks: the file is
			// stale (harness changed), which says nothing about the defect
			fmt.Fprintf(os.Stderr, "verifcheck: note: the replay file of listed finding %s (%s) no longer matches the harness (%s); re-record it with -record-known\n", f.Signature, filepath.Base(path), r.Diverged)
		}
		if r.Replayed != nil && r.Replayed.Signature == f.Signature {
			n++
			fmt.Printf("KNOWN-FINDING: property=%s %s: %s\n", id, f.Signature, oneLine(r.Replayed.Message, 300))
		}
	}
	return n
}

func doRecordKnown(b *build, id string, seed int64, workers int) int {
	var pd *propDef
	for i := range props {
		if props[i].ID == id {
			pd = &props[i]
		}
	}
	if pd == nil {
		fatal(2, "no check for property %s", id)
	}
	want := map[string]bool{}
	for _, f := range loadKnown() {
		if f.Property == id {
			want[f.Signature] = true
		}
	}
	if len(want) == 0 {
		fmt.Println("no listed finding for", id)
		return 0
	}
	_ = os.MkdirAll(filepath.Join(verif, "known"), 0o755)
	tmpReplays := filepath.Join(b.scratch, "known-replays")
	got := map[string]bool{}
	for round := 0; round < 6 && len(got) < len(want); round++ {
		for bi, bt := range pd.Batches {
			e, _ := engineByName(bt.Engine)
			bin, err := b.buildEngine(e)
			if err != nil {
				fatal(2, "%v", err)
			}
			var wg sync.WaitGroup
			reps := make([]*report, workers)
			for wi := 0; wi < workers; wi++ {
				wg.Add(1)
				go func(wi int) {
					defer wg.Done()
					variant := bt.Variant
					if variant != "" {
						variant += ";"
					}
					env := map[string]string{"VERIF_MODE": "explore", "VERIF_SEED": strconv.FormatInt(seed+int64(round)*7919, 10), "VERIF_FIRST": strconv.Itoa(900_000 + bi*10_000 + wi), "VERIF_STRIDE": strconv.Itoa(workers),
						"VERIF_COUNT": "4000", "VERIF_WALL": "60", "VERIF_PROPS": id, "VERIF_TIER": "quick", "VERIF_VARIANT": variant + "known=only", "VERIF_MAXFOUND": "12", "VERIF_SHRINK_S": "20",
						"VERIF_OUT": filepath.Join(b.scratch, fmt.Sprintf("known-%d-%d-%d.json", round, bi, wi)), "VERIF_REPLAY_DIR": tmpReplays, "VERIF_KNOWN": "/nonexistent", "GOMAXPROCS": "2"}
					reps[wi], _, _ = runWorker(bin, e.TestName, env, 15*time.Minute)
				}(wi)
			}
			wg.Wait()
			for _, r := range reps {
				if r == nil {
					continue
				}
				for _, f := range r.Found {
					sig := f.Violation.Signature
					if !want[sig] || got[sig] || f.Replay == "" {
						continue
					}
					if err := copyFile(f.Replay, sigFile(id, sig)); err == nil {
						got[sig] = true
						fmt.Printf("recorded %s -> %s\n", sig, sigFile(id, sig))
					}
				}
			}
		}
	}
	for sig := range want {
		if !got[sig] {
			fmt.Printf("NOT FOUND within the budget: %s\n", sig)
		}
	}
	return 0
}

type agg struct {
	runs, nontrivial int
	wall             float64
	simTime          float64
	steps, draws     int64
	stats            map[string]int64
	hashes           map[uint64]struct{}
	samples          [][]string
	found            []found
	cpuS             float64
}

func doCheck(b *build, id, tier string, seed int64, workers int, scale float64) int {
	start := time.Now()
	var pd *propDef
	for i := range props {
		if props[i].ID == id {
			pd = &props[i]
		}
	}
	if pd == nil {
		fatal(2, "no check for property %s", id)
	}
	evPath := filepath.Join(verif, "evidence", id+".json")
	if d := os.Getenv("VERIF_EVIDENCE_DIR"); d != "" { // sensitivity runs on a scratch tree must not overwrite the evidence
		_ = os.MkdirAll(d, 0o755)
		evPath = filepath.Join(d, id+".json")
	}
	_ = os.Remove(evPath)
	a := &agg{stats: map[string]int64{}, hashes: map[uint64]struct{}{}}
	batchInfo := []map[string]any{}
	var crashLines []string
	for bi, bt := range pd.Batches {
		e, ok := engineByName(bt.Engine)
		if !ok {
			fatal(2, "unknown engine %s", bt.Engine)
		}
		bin, err := b.buildEngine(e)
		if err != nil {
			fatal(2, "build of engine %s failed: %v", e.Name, err)
		}
		total, wall := bt.Runs, bt.WallS
		if tier == "thorough" {
			total, wall = bt.RunsT, bt.WallST
		}
		total = int(float64(total) * scale)
		if total < workers {
			total = workers
		}
		chunk := (total + workers - 1) / workers
		var wg sync.WaitGroup
		reps := make([]*report, workers)
		errs := make([]error, workers)
		outs := make([]string, workers)
		bstart := time.Now()
		var hashMu sync.Mutex
		for wi := 0; wi < workers; wi++ {
			wg.Add(1)
			go func(wi int) {
				defer wg.Done()
				out := filepath.Join(b.scratch, fmt.Sprintf("out-%d-%d.json", bi, wi))
				env := map[string]string{
					"VERIF_MODE": "explore", "VERIF_SEED": strconv.FormatInt(seed, 10),
					"VERIF_FIRST": strconv.Itoa(bi*100_000 + wi), "VERIF_STRIDE": strconv.Itoa(workers), "VERIF_COUNT": strconv.Itoa(chunk),
					"VERIF_WALL": strconv.Itoa(wall), "VERIF_PROPS": id, "VERIF_TIER": tier, "VERIF_VARIANT": bt.Variant,
					"VERIF_OUT": out, "VERIF_REPLAY_DIR": filepath.Join(verif, "replays"), "VERIF_KNOWN": filepath.Join(verif, "known_findings.json"),
					"GOMAXPROCS": "2",
				}
				if bt.Enum {
					env["VERIF_ENUM"] = "1"
				}
				if e.Race {
					env["VERIF_TOLERATE_EXIT"] = "1" // the testing package fails a test during which a race was reported
					env["GORACE"] = "halt_on_error=0"
				}
				// One slot = a sequence of worker processes of bounded length: goroutines left blocked
				// at the end of a bubble (and whatever they reference) are never collected, so a process
				// that lives for hundreds of thousands of runs would eat the machine's memory.
				maxPerProc := 8000
				if bt.Enum {
					maxPerProc = 100
				}
				merged := &report{Stats: map[string]int64{}}
				deadline := bstart.Add(time.Duration(wall) * time.Second)
				for done := 0; done < chunk; {
					n := chunk - done
					if n > maxPerProc {
						n = maxPerProc
					}
					remaining := int(time.Until(deadline).Seconds())
					if remaining <= 0 {
						if done > 0 {
							break
						}
						remaining = 1
					}
					env["VERIF_FIRST"] = strconv.Itoa(bi*100_000 + wi + done*workers)
					env["VERIF_COUNT"] = strconv.Itoa(n)
					env["VERIF_WALL"] = strconv.Itoa(remaining)
					r, o, err := runWorker(bin, e.TestName, env, time.Duration(remaining)*time.Second+10*time.Minute)
					if err != nil || r == nil {
						reps[wi], outs[wi], errs[wi] = r, o, err
						return
					}
					outs[wi] = o
					merged.Engine, merged.Error = r.Engine, r.Error
					merged.Runs += r.Runs
					merged.NonTrivial += r.NonTrivial
					merged.WallS += r.WallS
					merged.SimTimeS += r.SimTimeS
					merged.Steps += r.Steps
					merged.Draws += r.Draws
					for k, v := range r.Stats {
						merged.Stats[k] += v
					}
					merged.Found = append(merged.Found, r.Found...)
					if len(merged.Samples) < 3 {
						merged.Samples = append(merged.Samples, r.Samples...)
					}
					if hb, err := os.ReadFile(out + ".hashes"); err == nil {
						hashMu.Lock()
						for i := 0; i+8 <= len(hb); i += 8 {
							a.hashes[binary.LittleEndian.Uint64(hb[i:])] = struct{}{}
						}
						hashMu.Unlock()
						_ = os.Remove(out + ".hashes")
					}
					got := r.Runs
					if bt.Enum {
						got = int(r.Stats["enum.histories"])
					}
					nv := 0
					for _, f := range r.Found {
						if !f.Known {
							nv++
						}
					}
					if got < n || nv > 0 || r.Error != "" {
						break // wall budget used up, or the worker stopped at a violation
					}
					done += n
				}
				reps[wi] = merged
			}(wi)
		}
		wg.Wait()
		bruns := 0
		for wi := 0; wi < workers; wi++ {
			progress := filepath.Join(b.scratch, fmt.Sprintf("out-%d-%d.json.progress", bi, wi))
			if pb, perr := os.ReadFile(progress); perr == nil && (errs[wi] != nil || reps[wi] == nil || reps[wi].Runs == 0) {
				// the worker process died in the middle of a run: a crash of the system under test (or of
				// the harness).  Re-run that seed alone in a fresh process to confirm it.
				seedStr := strings.TrimSpace(string(pb))
				crashSeed, _ := strconv.ParseUint(seedStr, 10, 64)
				rf := map[string]any{"engine": e.Name, "variant": bt.Variant, "property": id, "props": []string{id}, "tier": tier, "seed": crashSeed, "seed_only": true,
					"violation": map[string]string{"property": id, "invariant": "process-crash", "message": "the run kills the process (runtime fatal error or unrecovered panic); output in the .crash.txt file next to this replay"}}
				path := filepath.Join(verif, "replays", fmt.Sprintf("%s-%s-%s-crash.json", id, e.Name, seedStr))
				jb, _ := json.MarshalIndent(rf, "", " ")
				_ = os.MkdirAll(filepath.Dir(path), 0o755)
				_ = os.WriteFile(path, jb, 0o644)
				env := map[string]string{"VERIF_MODE": "replay", "VERIF_REPLAY": path, "VERIF_OUT": filepath.Join(b.scratch, "crash.json"), "VERIF_TOLERATE_EXIT": "1"}
				_, cout, cerr := runWorker(bin, e.TestName, env, 20*time.Minute)
				if cerr == nil || !(strings.Contains(cout, "fatal error:") || strings.Contains(cout, "panic:")) {
					fmt.Fprintln(os.Stderr, outs[wi])
					fatal(2, "batch %d worker %d died at seed %s but the seed alone does not crash a fresh process: %v", bi, wi, seedStr, errs[wi])
				}
				if strings.Contains(cout, "harness trouble") || strings.Contains(cout, "zz_verif") && !strings.Contains(cout, "go.universe.tf/metallb/internal/") {
					fmt.Fprintln(os.Stderr, cout)
					fatal(2, "batch %d worker %d: the harness itself crashed at seed %s", bi, wi, seedStr)
				}
				_ = os.WriteFile(strings.TrimSuffix(path, ".json")+".crash.txt", []byte(cout), 0o644)
				fmt.Printf("violation %s/process-crash seed=%s: %s\n", id, seedStr, oneLine(firstFatal(cout), 300))
				crashLines = append(crashLines, fmt.Sprintf("VIOLATION property=%s replay=%s", id, path))
				continue
			}
			if errs[wi] != nil {
				fmt.Fprintln(os.Stderr, outs[wi])
				fatal(2, "batch %d (%s %s) worker %d: %v", bi, bt.Engine, bt.Variant, wi, errs[wi])
			}
			r := reps[wi]
			if r.Runs == 0 {
				fmt.Fprintln(os.Stderr, outs[wi])
				fatal(2, "batch %d (%s %s) worker %d performed no run", bi, bt.Engine, bt.Variant, wi)
			}
			a.runs += r.Runs
			bruns += r.Runs
			a.nontrivial += r.NonTrivial
			a.simTime += r.SimTimeS
			a.steps += r.Steps
			a.draws += r.Draws
			a.cpuS += r.WallS
			for k, v := range r.Stats {
				a.stats[k] += v
			}
			if len(a.samples) < 3 {
				a.samples = append(a.samples, r.Samples...)
			}
			a.found = append(a.found, r.Found...)
			if hb, err := os.ReadFile(filepath.Join(b.scratch, fmt.Sprintf("out-%d-%d.json.hashes", bi, wi))); err == nil {
				for i := 0; i+8 <= len(hb); i += 8 {
					a.hashes[binary.LittleEndian.Uint64(hb[i:])] = struct{}{}
				}
			}
		}
		batchInfo = append(batchInfo, map[string]any{"engine": bt.Engine, "variant": bt.Variant, "runs": bruns, "wall_s": time.Since(bstart).Seconds(), "note": bt.Note})
	}
	knownReplayed := replayKnown(b, id)
	// verify violations by replaying them in a fresh process
	exit := 0
	seenKnown := map[string]bool{}
	var violLines []string
	nviol := 0
	seenClass := map[string]bool{}
	for _, f := range a.found {
		if f.Known {
			// (listed findings are announced by replaying their stored files; occurrences met during
			// the exploration are only counted)
			seenKnown[f.Violation.Signature] = true
			continue
		}
		cls := f.Violation.Property + "/" + f.Violation.Invariant + "/" + f.Violation.Signature
		if seenClass[cls] {
			continue
		}
		seenClass[cls] = true
		// fresh-process replay
		var rfEngine struct {
			Engine string `json:"engine"`
		}
		raw, _ := os.ReadFile(f.Replay)
		_ = json.Unmarshal(raw, &rfEngine)
		e, _ := engineByName(rfEngine.Engine)
		bin, _ := b.buildEngine(e)
		env := map[string]string{"VERIF_MODE": "replay", "VERIF_REPLAY": f.Replay, "VERIF_OUT": filepath.Join(b.scratch, "verify.json")}
		if e.Race {
			env["VERIF_TOLERATE_EXIT"] = "1"
		}
		r, out, err := runWorker(bin, e.TestName, env, 20*time.Minute)
		if e.Race && strings.Contains(out, "WARNING: DATA RACE") {
			_ = os.WriteFile(strings.TrimSuffix(f.Replay, ".json")+".race.txt", []byte(out), 0o644)
		}
		if err != nil {
			fmt.Fprintln(os.Stderr, out)
			fatal(2, "replay of %s failed: %v", f.Replay, err)
		}
		if r.Replayed == nil || r.Replayed.Property != f.Violation.Property || r.Replayed.Invariant != f.Violation.Invariant || r.Diverged != "" {
			fatal(2, "violation %s (seed %d) did not reproduce from %s in a fresh process (diverged: %q) — nondeterminism in the machinery, not a verdict", cls, f.Seed, f.Replay, r.Diverged)
		}
		nviol++
		fmt.Printf("violation %s seed=%d: %s\n", cls, f.Seed, oneLine(f.Violation.Message, 600))
		violLines = append(violLines, fmt.Sprintf("VIOLATION property=%s replay=%s", id, f.Replay))
		exit = 1
	}
	nviol += len(crashLines)
	wall := time.Since(start).Seconds()
	// evidence
	faults := map[string]int64{}
	probes := map[string]int64{}
	other := map[string]int64{}
	var zeroProbes []string
	for k, v := range a.stats {
		switch {
		case strings.HasPrefix(k, "fault."):
			faults[strings.TrimPrefix(k, "fault.")] = v
		case strings.HasPrefix(k, "probe."):
			probes[strings.TrimPrefix(k, "probe.")] = v
		default:
			other[k] = v
		}
	}
	for _, p := range expectedProbes[id] {
		if probes[p] == 0 {
			zeroProbes = append(zeroProbes, p)
		}
	}
	sort.Strings(zeroProbes)
	samples := []any{}
	for _, s := range a.samples {
		samples = append(samples, s)
	}
	if len(samples) == 0 {
		samples = append(samples, "no sample trace recorded (all sampled runs ended in violations)")
	}
	distinct := len(a.hashes)
	ev := map[string]any{
		"property_id": id, "tier": tier, "seed": seed, "level": pd.Level, "wall_s": wall, "violations": nviol,
		"assumptions": pd.Assumptions,
		"coverage": map[string]any{
			"evaluations":             a.runs,
			"distinct_nontrivial":     distinct,
			"rule":                    pd.Rule + " A run is non-trivial when it reached a quiescent state in which at least one object of interest existed (an assigned/announced address, an established session, an applied configuration); runs are distinct when the hash of their sequence of scheduler events (actor, event kind, object) differs.",
			"samples":                 samples,
			"runs_per_hour":           float64(a.runs) / wall * 3600,
			"simulated_time_s":        a.simTime,
			"scheduler_steps":         a.steps,
			"choices_drawn":           a.draws,
			"faults_fired":            faults,
			"reach_probes":            probes,
			"reach_probes_at_zero":    zeroProbes,
			"counters":                other,
			"batches":                 batchInfo,
			"components":              pd.Components,
			"rewrite_sites":           b.counts,
			"known_findings_seen":     len(seenKnown),
			"known_findings_replayed": knownReplayed,
			"worker_cpu_s":            a.cpuS,
		},
	}
	eb, _ := json.MarshalIndent(ev, "", " ")
	_ = os.MkdirAll(filepath.Join(verif, "evidence"), 0o755)
	if err := os.WriteFile(evPath, eb, 0o644); err != nil {
		fatal(2, "%v", err)
	}
	fmt.Printf("%s %s: %d runs (%d distinct non-trivial schedules), %.0f runs/h, %.1fs wall, %d violation(s), faults fired: %v\n", id, tier, a.runs, distinct, float64(a.runs)/wall*3600, wall, nviol, faults)
	if len(zeroProbes) > 0 {
		fmt.Printf("warning: reach probes at zero: %v\n", zeroProbes)
	}
	for _, l := range violLines {
		fmt.Println(l)
	}
	for _, l := range crashLines {
		fmt.Println(l)
		exit = 1
	}
	return exit
}

func firstFatal(out string) string {
	for _, l := range strings.Split(out, "\n") {
		if strings.HasPrefix(l, "fatal error:") || strings.HasPrefix(l, "panic:") {
			return l
		}
	}
	return "process crash"
}

func oneLine(s string, n int) string {
	s = strings.ReplaceAll(s, "\n", " | ")
	if len(s) > n {
		s = s[:n] + "..."
	}
	return s
}

func doSelftest(b *build, which string, seed int64, workers int, only string) int {
	switch which {
	case "determinism":
		// every engine: 32 seeds x 3 repetitions x GOMAXPROCS 1/4/16 in separate processes
		bad := 0
		for _, e := range engines {
			if only != "" && e.Name != only {
				continue
			}
			bin, err := b.buildEngine(e)
			if err != nil {
				fatal(2, "build %s: %v", e.Name, err)
			}
			variants := selftestVariants[e.Name]
			if len(variants) == 0 {
				variants = []string{""}
			}
			for _, variant := range variants {
				ref := ""
				var mu sync.Mutex
				var wg sync.WaitGroup
				sem := make(chan struct{}, workers)
				n := 0
				for _, gmp := range []string{"1", "4", "16"} {
					for rep := 0; rep < 4; rep++ {
						wg.Add(1)
						n++
						go func(gmp string, rep int) {
							defer wg.Done()
							sem <- struct{}{}
							defer func() { <-sem }()
							env := map[string]string{"VERIF_MODE": "hash", "VERIF_SEED": strconv.FormatInt(seed, 10), "VERIF_COUNT": "32", "VERIF_PROPS": strings.Join(allProps(e.Name), ","),
								"VERIF_VARIANT": variant, "GOMAXPROCS": gmp, "VERIF_OUT": filepath.Join(b.scratch, fmt.Sprintf("hash-%s-%s-%d.json", e.Name, gmp, rep)),
								"VERIF_KNOWN": filepath.Join(verif, "known_findings.json")}
							r, out, err := runWorker(bin, e.TestName, env, 30*time.Minute)
							if err != nil {
								fmt.Fprintln(os.Stderr, out)
								fatal(2, "selftest worker: %v", err)
							}
							mu.Lock()
							if ref == "" {
								ref = r.EventHash
							} else if ref != r.EventHash {
								bad++
								fmt.Printf("NONDETERMINISM engine=%s variant=%q GOMAXPROCS=%s rep=%d\n  ref=%s\n  got=%s\n", e.Name, variant, gmp, rep, ref, r.EventHash)
							}
							mu.Unlock()
						}(gmp, rep)
					}
				}
				wg.Wait()
				fmt.Printf("determinism %s variant=%q: %d processes x 32 seeds, %d mismatches\n", e.Name, variant, n, bad)
			}
		}
		if bad > 0 {
			return 2
		}
		return 0
	case "rewrite":
		// The repository's own unit tests of the rewritten packages, run against the rewritten
		// sources with no simulation active (every substituted primitive falls back to the real
		// one): they must pass as they do on the original sources.
		bad := 0
		origRes := map[string]map[string]string{}
		var mu sync.Mutex
		for _, e := range engines {
			if only != "" && e.Name != only {
				continue
			}
			saveH, saveS := e.Harness, e.StubTest
			e2 := e
			e2.Name = e.Name + "-rw"
			e2.StubTest = nil
			e2.Skip = "_test.go"
			e2.NoBuild = true
			if _, err := b.buildEngine(e2); err != nil {
				fatal(2, "build %s: %v", e2.Name, err)
			}
			_, _ = saveH, saveS
			dir := filepath.Join(b.scratch, e2.Name)
			run := func(extra []string, pkg string) map[string]string {
				args := append([]string{"test"}, extra...)
				args = append(args, "-vet=off", "-count=1", "-json", "-timeout", "25m", "./"+pkg)
				c := exec.Command(goBin, args...)
				c.Dir = repo
				c.Env = goEnv()
				out, _ := c.Output()
				res := map[string]string{}
				for _, line := range strings.Split(string(out), "\n") {
					var ev struct{ Action, Package, Test string }
					if json.Unmarshal([]byte(line), &ev) != nil || ev.Test == "" {
						continue
					}
					if ev.Action == "pass" || ev.Action == "fail" || ev.Action == "skip" {
						res[ev.Test] = ev.Action
					}
				}
				return res
			}
			for _, p := range e.SimPkgs {
				mu.Lock()
				orig, ok := origRes[p]
				mu.Unlock()
				if !ok {
					orig = run(nil, p)
					origRes[p] = orig
				}
				rw := run([]string{"-tags", "verif", "-overlay", filepath.Join(dir, "overlay.json"), "-modfile", filepath.Join(dir, "go.mod")}, p)
				np, diff := 0, 0
				for t, a := range orig {
					if a == "pass" {
						np++
					}
					if rw[t] != a {
						diff++
						fmt.Printf("  DIFFERENT %s %s: original %s, rewritten %q\n", p, t, a, rw[t])
					}
				}
				for t := range rw {
					if _, ok := orig[t]; !ok {
						diff++
						fmt.Printf("  DIFFERENT %s %s: only in rewritten\n", p, t)
					}
				}
				fmt.Printf("rewrite %s (rules %s) %s: %d tests, %d passing on the original sources, %d differences\n", e.Name, e.Rules, p, len(orig), np, diff)
				bad += diff
			}
		}
		if bad > 0 {
			return 2
		}
		return 0
	}
	fatal(2, "unknown selftest %q", which)
	return 2
}

func allProps(engineName string) []string {
	m := map[string]bool{}
	for _, p := range props {
		for _, bt := range p.Batches {
			if bt.Engine == engineName {
				m[p.ID] = true
			}
		}
	}
	var out []string
	for p := range m {
		out = append(out, p)
	}
	sort.Strings(out)
	return out
}
