package main

var kctlPkgs = []string{"controller", "internal/allocator", "internal/allocator/k8salloc", "internal/config", "internal/k8s/controllers", "internal/k8s", "internal/ipfamily"}

var engines = []engine{
	{
		Name: "kctl", TestPkg: "controller", TestName: "TestVerifKctl", SimPkgs: kctlPkgs, Rules: "r1",
		Harness:  []string{"controller", "internal/allocator", "internal/k8s/controllers"},
		StubTest: []string{"controller"},
	},
}

var kctlComponents = map[string]string{
	"controller.SetBalancer/SetPools/convergeBalancer/allocateIPs":                    "real (compiled from the working tree, map ranges rewritten to a chosen order)",
	"internal/allocator, k8salloc, ipfamily, internal/config (config.For)":           "real",
	"controllers.ServiceReconciler (reprocessAll, initial-load gate), PoolReconciler": "real",
	"controllers.PoolStatusReconciler, k8s.Listener":                                  "real",
	"Kubernetes API server, informer cache, work queues, rate limiter":                "simulated (simk8s)",
	"controller-runtime manager / SetupWithManager wiring, event recorder":            "stub (update filters are the real functions)",
}

var kctlAssume = []string{
	"the simulated API server implements optimistic concurrency and the status subresource as the real one does for Services (status + metadata replaced, spec kept)",
	"controller-runtime delivers every watch event of a kind in order and runs one worker per controller; handler-granularity interleaving between the three workers (interleave points: every cache read and every Listener entry)",
	"oracles are computed from raw API objects by /verif/sim/specalloc (own address parser on net/netip), never by MetalLB code, except 'fresh rebuild' in C11 which by definition uses a fresh allocator",
}

const kctlRule = "Each run draws swarm knobs (sizes, fault kinds, lag, interleaving, map and list orders), then a state-dependent history of service/pool/namespace operations scheduled against informer deliveries, worker steps, clock jumps, faults and restarts of the real controller."

var props = []propDef{
	{ID: "C01", Level: "exploration", Rule: kctlRule, Assumptions: kctlAssume, Components: kctlComponents,
		Batches: []batch{{Engine: "kctl", Variant: "", Runs: 24000, RunsT: 400000, WallS: 150, WallST: 1500}}},
	{ID: "C02", Level: "exploration", Rule: kctlRule, Assumptions: kctlAssume, Components: kctlComponents,
		Batches: []batch{{Engine: "kctl", Variant: "", Runs: 24000, RunsT: 400000, WallS: 150, WallST: 1500}}},
	{ID: "C03", Level: "exploration", Rule: kctlRule, Assumptions: kctlAssume, Components: kctlComponents,
		Batches: []batch{{Engine: "kctl", Variant: "", Runs: 24000, RunsT: 400000, WallS: 150, WallST: 1500}}},
	{ID: "C06", Level: "exploration", Rule: kctlRule, Assumptions: kctlAssume, Components: kctlComponents,
		Batches: []batch{{Engine: "kctl", Variant: "faults=on", Runs: 24000, RunsT: 400000, WallS: 150, WallST: 1500}}},
	{ID: "C07", Level: "exploration", Rule: kctlRule, Assumptions: kctlAssume, Components: kctlComponents,
		Batches: []batch{{Engine: "kctl", Variant: "", Runs: 24000, RunsT: 400000, WallS: 150, WallST: 1500}}},
	{ID: "C11", Level: "exploration", Rule: kctlRule, Assumptions: kctlAssume, Components: kctlComponents,
		Batches: []batch{{Engine: "kctl", Variant: "", Runs: 24000, RunsT: 400000, WallS: 150, WallST: 1500}}},
}

var expectedProbes = map[string][]string{}

var selftestVariants = map[string][]string{
	"kctl": {"", "faults=on"},
}
