package main

var kctlPkgs = []string{"controller", "internal/allocator", "internal/allocator/k8salloc", "internal/config", "internal/k8s/controllers", "internal/k8s", "internal/ipfamily"}

var engines = []engine{
	{
		Name: "kctl", Skip: "_gconc", TestPkg: "controller", TestName: "TestVerifKctl", SimPkgs: kctlPkgs, Rules: "r1",
		Harness:  []string{"controller", "internal/allocator", "internal/k8s/controllers"},
		StubTest: []string{"controller"},
	},
	{
		Name: "kspk", Skip: "_gconc", TestPkg: "speaker", TestName: "TestVerifKspk", SimPkgs: kspkPkgs, Rules: "r1,r4", Subst: "harness/speaker_subst.json",
		Harness:  []string{"speaker", "internal/layer2", "internal/k8s/controllers", "internal/bgp/frr"},
		StubTest: []string{"speaker"},
	},
	{
		Name: "gnative", TestPkg: "internal/bgp/native", TestName: "TestVerifGnative", SimPkgs: gnativePkgs, Rules: "r1,r2,r3,r4,r5", Subst: "harness/native_subst.json",
		Harness:  []string{"internal/bgp/native"},
		StubTest: []string{"internal/bgp/native"},
	},
	{
		Name: "gconc", TestPkg: "controller", TestName: "TestVerifGconc", SimPkgs: kctlPkgs, Rules: "r1,r2,r3", Race: true,
		Harness:  []string{"controller", "internal/allocator", "internal/k8s/controllers"},
		StubTest: []string{"controller"},
	},
	{
		Name: "gconcspk", TestPkg: "speaker", TestName: "TestVerifGconcSpk", SimPkgs: kspkPkgs, Rules: "r1,r2,r3,r4", Subst: "harness/speaker_subst.json", Race: true,
		Harness:  []string{"speaker", "internal/layer2", "internal/k8s/controllers", "internal/bgp/frr"},
		StubTest: []string{"speaker"},
	},
	{
		Name: "gl2", TestPkg: "internal/layer2", TestName: "TestVerifGl2", SimPkgs: []string{"internal/layer2"}, Rules: "r1,r2,r3,r4,r5", Subst: "harness/layer2_subst.json",
		Harness:  []string{"internal/layer2"},
		StubTest: []string{"internal/layer2"},
	},
	{
		Name: "gfrrk8s", TestPkg: "internal/k8s/controllers", TestName: "TestVerifGfrrk8s", SimPkgs: gfrrk8sPkgs, Rules: "r1,r2,r3,r5",
		Harness:  []string{"internal/k8s/controllers"},
		StubTest: []string{"internal/k8s/controllers"},
	},
	{
		Name: "gfrr", TestPkg: "internal/bgp/frr", TestName: "TestVerifGfrr", SimPkgs: gfrrPkgs, Rules: "r1,r2,r3,r4,r5", Subst: "harness/frr_subst.json",
		Harness:  []string{"internal/bgp/frr"},
		StubTest: []string{"internal/bgp/frr"},
	},
}

var gfrrk8sPkgs = []string{"internal/k8s/controllers", "internal/bgp/frrk8s"}

var gfrrPkgs = []string{"internal/bgp/frr"}

var gnativePkgs = []string{"internal/bgp/native"}

var kspkPkgs = []string{"speaker", "internal/layer2", "internal/config", "internal/k8s/controllers", "internal/k8s", "internal/k8s/epslices", "internal/k8s/nodes", "internal/bgp", "internal/bgp/community", "internal/bgp/frr", "internal/bgp/frrk8s"}

var kspkComponents = map[string]string{
	"speaker controller (SetBalancer/SetConfig/SetNode), layer2Controller, bgpController":           "real (map ranges rewritten to a chosen order)",
	"layer2.Announce bookkeeping (SetBalancer/DeleteBalancer/shouldAnnounce)":                       "real, constructed without goroutines (no OS interface scan, no responders)",
	"controllers.ServiceReconciler (endpoint slices), ConfigReconciler, NodeReconciler + predicate": "real",
	"internal/config (config.For), k8s.Listener":                                                    "real",
	"Kubernetes API server, informer caches, work queues":                                           "simulated (simk8s), one cache and three queues per speaker",
	"hashicorp/memberlist (internal/speakerlist)":                                                   "stub behind the SpeakerList interface: ground-truth membership, lagging views, false suspicion",
	"BGP session manager": "recording stub (arguments of the last Set per live session)",
	"MetalLB controller":  "played by the environment (writes pool-consistent status addresses, clears orphaned ones)",
}

var kspkAssume = []string{
	"quiescence = every running speaker has applied every watch event, emptied its queues and has a memberlist view equal to the ground truth; oracles run only when the API server's current configuration is one the ConfigReconciler accepts (shared view)",
	"oracles are computed from raw API objects by /verif/sim/specspk; the layer-2 election is not mirrored: only uniqueness, eligibility, agreement and minimal movement are demanded",
	"services sharing an address under the Local policy have identical endpoint slices (generator restriction = 'identical pod selectors')",
}

const kspkRule = "Each run draws swarm knobs (2-4 nodes, memberlist on/off, exclude-label handling, BGP mode, fault kinds, lag, interleaving, map and list orders), boots one real speaker per node on a generated cluster (a quarter of the runs apply no further event), then schedules generated service/endpoint/node/advertisement/peer/pool/membership events against informer deliveries, worker steps of the three reconcilers of every speaker, speaker crashes/restarts and false suspicions."

var kctlComponents = map[string]string{
	"controller.SetBalancer/SetPools/convergeBalancer/allocateIPs":                    "real (compiled from the working tree, map ranges rewritten to a chosen order)",
	"internal/allocator, k8salloc, ipfamily, internal/config (config.For)":            "real",
	"controllers.ServiceReconciler (reprocessAll, initial-load gate), PoolReconciler": "real",
	"controllers.PoolStatusReconciler, k8s.Listener":                                  "real",
	"Kubernetes API server, informer cache, work queues, rate limiter":                "simulated (simk8s)",
	"controller-runtime manager / SetupWithManager wiring, event recorder":            "stub (update filters are the real functions)",
}

var kctlAssume = []string{
	"the simulated API server implements optimistic concurrency and the status subresource as the real one does for Services (status + metadata replaced, spec kept)",
	"controller-runtime delivers every watch event of a kind in order and runs one worker per controller; handler-granularity interleaving between the three workers (interleave points: every cache read and every Listener entry)",
	"oracles are computed from raw API objects by /verif/sim/specalloc (own address parser on net/netip), never by MetalLB code, except 'fresh rebuild' in C11 which by definition uses a fresh allocator",
}

const modeARule = "  Mode A batch: seeded sequences of direct allocator API calls (Assign, Allocate, AllocateFromPool, AllocateFromPoolForAdditionalFamily, Unassign, SetPools through the real PoolReconciler) over generated services and pools under drawn map orders; every call is followed by the exclusivity / membership / counter / rebuild / release-probe checks."

const kctlRule = "Each run draws swarm knobs (sizes, fault kinds, lag, interleaving, map and list orders), then a state-dependent history of service/pool/namespace operations scheduled against informer deliveries, worker steps, clock jumps, faults and restarts of the real controller."

var props = []propDef{
	{ID: "C01", Level: "exploration", Rule: kctlRule + modeARule, Assumptions: kctlAssume, Components: kctlComponents,
		Batches: []batch{{Engine: "kctl", Variant: "", Runs: 96000, RunsT: 2000000, WallS: 150, WallST: 900, Note: "mode B: the controller process"},
			{Engine: "kctl", Variant: "modeA", Runs: 64000, RunsT: 1500000, WallS: 100, WallST: 900, Note: "mode A: the allocator API driven directly (explicit assign / allocate / release histories)"}}},
	{ID: "C02", Level: "exploration", Rule: kctlRule + modeARule, Assumptions: kctlAssume, Components: kctlComponents,
		Batches: []batch{{Engine: "kctl", Variant: "", Runs: 96000, RunsT: 2000000, WallS: 150, WallST: 900, Note: "mode B: the controller process"},
			{Engine: "kctl", Variant: "modeA", Runs: 64000, RunsT: 1500000, WallS: 100, WallST: 900, Note: "mode A: the allocator API driven directly (explicit assign / allocate / release histories)"}}},
	{ID: "C03", Level: "exploration", Rule: kctlRule, Assumptions: kctlAssume, Components: kctlComponents,
		Batches: []batch{{Engine: "kctl", Variant: "", Runs: 96000, RunsT: 2000000, WallS: 150, WallST: 900}}},
	{ID: "C06", Level: "fault_enumeration", Rule: kctlRule + "  Crash-point enumeration batch: for each sampled fault-free history (<= 25 operations) one run per crash opportunity it passes (every scheduler step boundary, before and after every status write), i.e. every single-crash point of that history under that schedule; the random batch adds multi-crash and write-failure sequences.", Assumptions: kctlAssume, Components: kctlComponents,
		Batches: []batch{{Engine: "kctl", Variant: "crashat", Enum: true, Runs: 400, RunsT: 8000, WallS: 150, WallST: 900, Note: "crash-point enumeration: every single crash point of each sampled history"},
			{Engine: "kctl", Variant: "faults=on", Runs: 96000, RunsT: 2000000, WallS: 150, WallST: 900, Note: "random multi-fault sequences"}}},
	{ID: "C07", Level: "exploration", Rule: kctlRule, Assumptions: kctlAssume, Components: kctlComponents,
		Batches: []batch{{Engine: "kctl", Variant: "", Runs: 96000, RunsT: 2000000, WallS: 150, WallST: 900}}},
	{ID: "C11", Level: "exploration", Rule: kctlRule + modeARule, Assumptions: kctlAssume, Components: kctlComponents,
		Batches: []batch{{Engine: "kctl", Variant: "", Runs: 96000, RunsT: 2000000, WallS: 150, WallST: 900, Note: "mode B: the controller process"},
			{Engine: "kctl", Variant: "modeA", Runs: 64000, RunsT: 1500000, WallS: 100, WallST: 900, Note: "mode A: the allocator API driven directly (explicit assign / allocate / release histories)"}}},
}

func spkProp(id string) propDef {
	pd := propDef{ID: id, Level: "exploration", Rule: kspkRule, Assumptions: kspkAssume, Components: kspkComponents,
		Batches: []batch{{Engine: "kspk", Variant: "", Runs: 36000, RunsT: 600000, WallS: 170, WallST: 900}}}
	if id == "C18" {
		pd.Rule += "  Controller half: in every K-ctl run, at each quiescence a duplicate event is delivered to the real PoolReconciler (fresh listing and map orders); the pool handler must not be invoked again."
		pd.Batches[0].Note = "speaker process: ConfigReconciler fork check"
		pd.Batches = append(pd.Batches, batch{Engine: "kctl", Variant: "faults=off", Runs: 48000, RunsT: 1000000, WallS: 100, WallST: 900, Note: "controller process: PoolReconciler + allocator, unrelated event at every quiescence"})
	}
	return pd
}

var gnativeComponents = map[string]string{
	"native.sessionManager.NewSession, session.run/connect/sendUpdates/sendKeepalives/consumeBGP/Set/Close/abort, backoff": "real goroutines, one released at a time by the simulator (sync -> simsync, go -> simrt.Go, select -> simrt.Select, time.Sleep -> simrt.Sleep)",
	"native message codec (sendOpen/readOpen/sendUpdate/sendWithdraw/sendKeepalive)":                                       "real",
	"TCP connection, dialMD5": "simulated (simnet: ordered bytes, fragmentation, bounded buffer, deadlines on the fake clock, reset/close)",
	"BGP peer":                "scripted task decoding every byte with the independent bgpwire decoder",
	"clock / timers":          "testing/synctest fake clock",
}

var gnativeAssume = []string{
	"goroutine interleaving is explored at the granularity of park points (lock acquisition, condition wait, connection read/write, goroutine start, wake-up after a native block); code between two park points runs atomically",
	"the peer never sends KEEPALIVEs of its own (MetalLB's native session does not enforce the receive hold timer)",
}

const gnativeRule = "Each run draws session parameters (ASNs around the 2/4-byte boundary, iBGP/eBGP, peer capabilities, hold times, router id), a sequence of 1-8 Set calls (0-4 prefixes of any length 0..32, local preferences, 0..63 communities, duplicates, empty sets) with drawn pauses, an optional Close, and per connection a peer behaviour (wrong ASN, delayed/garbled OPEN, NOTIFICATION, drop after k messages, stall, refused or timed-out dial); the scheduler draws every interleaving of the session's goroutines, the peer and the workload."

var gfrrComponents = map[string]string{
	"frr.NewSessionManager, debouncer goroutine, reloadValidator goroutine, NewSession/Set/Close/SyncBFDProfiles/SyncExtraInfo": "real goroutines, one released at a time by the simulator",
	"createConfig, templateConfig (embedded templates), generateAndReloadConfigFile, writeConfig":                               "real",
	"configuration file and reloader status file":                                                                               "simulated (simfs) with failing and torn writes",
	"reloader signal (var reloadConfig) and the FRR reloader script":                                                            "stub: signal may fail or be slow; an asynchronous reloader task reads the file, applies or refuses it, writes the status file",
	"FRR": "frrinterp: interpreter of the emitted subset (network, prefix-list, route-map, on-match next); anything else is reported as trouble (exit 2)",
}

var gfrrk8sComponents = map[string]string{
	"frrk8s.NewSessionManager, NewSession/Set/Close/SyncBFDProfiles, updateConfig":                           "real",
	"controllers.FRRK8sReconciler: UpdateConfig, debouncer goroutine, Reconcile (Get/CreateOrUpdate/Delete)": "real goroutines, one released at a time by the simulator",
	"Kubernetes API server":                        "simulated (simk8s): every call a park point; write errors; external edits and deletes of the resource",
	"controller-runtime channel source and worker": "harness tasks (receive generic events, de-duplicating queue, requeue with back-off)",
	"frr-k8s": "frrk8sinterp: denotation of the FRRConfiguration + structural clauses",
}

var gfrrk8sAssume = []string{
	"frr-k8s semantics as implemented by /verif/sim/frrk8sinterp; the same bgpmodel denotation is the reference for FRR mode (C14) and FRR-K8s mode (C15), which is how their agreement is decided",
}

const gfrrk8sRule = "FRR-K8s: 1-3 submitter tasks issue session operations (parameters incl. password or secret reference, advertisement sets, identical resubmissions, closes) at drawn times, the API server fails writes and the resource is edited or deleted externally; every configuration computed by the session manager is interpreted, every resource written is matched against the computed ones."

func merge(a, b map[string]string) map[string]string {
	m := map[string]string{}
	for k, v := range a {
		m[k] = v
	}
	for k, v := range b {
		m[k] = v
	}
	return m
}

var gfrrAssume = []string{
	"FRR semantics as implemented by /verif/sim/frrinterp (first matching prefix-list entry decides, implicit deny, route-map entries in sequence order, on-match next continues, additive communities accumulate)",
	"'submitted' = handed to the debouncer's channel; the configuration applied by an attempt must be the latest handed-over one or one in flight at that moment",
}

const gfrrRule = "Each run draws the debounce and retry intervals, 1-3 submitter tasks issuing 2-11 session operations each (new sessions over several routers/VRFs with drawn parameters, advertisement sets over 7 prefixes with local preferences and standard/large communities, conflicting requests, identical resubmissions, closes, extra-info markers, BFD profiles) at drawn times, and fault kinds (signal failure, slow signal, FRR refusing a reload, failed and torn file writes); the scheduler draws every interleaving of submitters, debouncer, validator and reloader."

var gl2Components = map[string]string{
	"layer2.Announce: SetBalancer/DeleteBalancer/shouldAnnounce/gratuitous/spamLoop": "real goroutines, one released at a time by the simulator",
	"arpResponder.run/processRequest/Gratuitous over arp.New(ifi, PacketConn)":       "real (mdlayher/arp parses and builds the frames)",
	"raw sockets": "simulated (simarp): per-interface PacketConn, reads/writes are park points, read and write errors",
	"LAN":         "harness task injecting ARP requests/replies (broadcast, this MAC, foreign MAC) and observing replies",
	"NDP":         "decision function (shouldAnnounce) and reference counts only; ndp.Conn needs a real ICMPv6 socket (stated partial reach)",
	"OS interface scan (net.Interfaces, /sys)": "not run: the harness creates one responder per simulated interface",
}

var gl2Assume = []string{
	"a request counts as answered iff an ARP reply for the target is written between the delivery of the request to the responder and the responder's next read",
	"linearizability is decided by porcupine v1.3.0 (10 s time-out per history; time-outs are counted as inconclusive, never reported)",
}

const gl2Rule = "Each run draws 1-2 updater tasks (2-9 announce / re-announce with changed interface scope / withdraw operations over 4 services sharing 3 addresses, IPv4 and IPv6), a LAN task injecting 3-16 frames (requests to broadcast / this MAC / a foreign MAC, replies, read errors) on 2 interfaces, the gratuitous loop on the fake clock, and write errors; the scheduler draws every interleaving."

var gconcComponents = map[string]string{
	"k8s.Listener (ServiceHandler, PoolHandler, ConfigHandler, NodeHandler) and its mutex":             "real, the mutex is scheduler-owned (simsync) and reports RaceAcquire/RaceRelease",
	"controller.SetBalancer/SetPools, allocator incl. countersMutex, CountersForPool":                  "real, built with -race",
	"speaker controller, bgpController (activeAdsMutex, PeersForService), layer2.Announce (GetStatus)": "real, built with -race",
	"controller-runtime workers": "harness tasks: one per reconciler plus status-query tasks, released one at a time by the seeded scheduler",
	"race detector":              "the Go race detector; the simulator's own hand-offs are hidden from it (runtime.RaceDisable, //go:norace), so only the program's own synchronisation orders accesses",
}

var gconcAssume = []string{
	"interleaving granularity = park points (lock acquisitions, yields between events); the race detector covers what happens between them",
	"a reported data race is deterministic for a given choice sequence because the execution order is; the report text is saved next to the replay file",
}

const gconcRule = "Each run draws scripts for the worker tasks (service events incl. full re-syncs and deletions, pool reconfigurations incl. rename/regroup/removal, status queries) and the scheduler draws their interleaving at every lock acquisition; the run is compared with the serial replay of the same handler invocations in Listener-lock order."

func init() {
	props = append(props, propDef{ID: "C20", Level: "exploration", Rule: gconcRule, Assumptions: gconcAssume, Components: gconcComponents,
		Batches: []batch{{Engine: "gconc", Variant: "", Runs: 12000, RunsT: 400000, WallS: 120, WallST: 900, Note: "controller process"},
			{Engine: "gconcspk", Variant: "", Runs: 12000, RunsT: 400000, WallS: 120, WallST: 900, Note: "speaker process"},
			{Engine: "gl2", Variant: "", Runs: 30000, RunsT: 600000, WallS: 60, WallST: 600, Note: "layer-2 announcer: announce / withdraw handlers against the periodic announcement loop and the responders, with a drawn (small) announcement-queue capacity: no deadlock, no panic (no race detector in this batch)"}}})
	props = append(props, propDef{ID: "C13", Level: "exploration", Rule: gl2Rule, Assumptions: gl2Assume, Components: gl2Components,
		Batches: []batch{{Engine: "gl2", Variant: "", Runs: 60000, RunsT: 1500000, WallS: 170, WallST: 900}}})
	props = append(props, propDef{ID: "C19", Level: "exploration", Rule: gfrrRule + " " + gfrrk8sRule, Assumptions: gfrrAssume, Components: merge(gfrrComponents, gfrrk8sComponents),
		Batches: []batch{{Engine: "gfrr", Variant: "", Runs: 20000, RunsT: 600000, WallS: 170, WallST: 900},
			{Engine: "gfrrk8s", Variant: "", Runs: 10000, RunsT: 300000, WallS: 100, WallST: 600, Note: "frr-k8s half: debouncer + reconciler delivery of the FRRConfiguration"}}})
	props = append(props, propDef{ID: "C15", Level: "exploration", Rule: gfrrk8sRule, Assumptions: gfrrk8sAssume, Components: gfrrk8sComponents,
		Batches: []batch{{Engine: "gfrrk8s", Variant: "", Runs: 20000, RunsT: 1000000, WallS: 170, WallST: 900}}})
	props = append(props, propDef{ID: "C14", Level: "exploration", Rule: gfrrRule, Assumptions: gfrrAssume, Components: gfrrComponents,
		Batches: []batch{{Engine: "gfrr", Variant: "", Runs: 20000, RunsT: 600000, WallS: 170, WallST: 900}}})
	for _, id := range []string{"C16", "C17"} {
		bs := []batch{{Engine: "gnative", Variant: "", Runs: 18000, RunsT: 500000, WallS: 170, WallST: 900}}
		if id == "C16" {
			bs = append(bs, batch{Engine: "gnative", Variant: "openfuzz", Runs: 20000, RunsT: 300000, WallS: 100, WallST: 600, Note: "the OPEN reader as a stream consumer: generated and mutated OPEN messages, fragmented delivery, trailing KEEPALIVE"})
		}
		props = append(props, propDef{ID: id, Level: "exploration", Rule: gnativeRule, Assumptions: gnativeAssume, Components: gnativeComponents, Batches: bs})
	}
	for _, id := range []string{"C04", "C05", "C09", "C10", "C12", "C18"} {
		props = append(props, spkProp(id))
	}
}

// expectedProbes: rare conditions each check is meant to reach; one that stays at zero in a run is
// listed in the evidence under reach_probes_at_zero (a reason to change the workload, not a failure).
var expectedProbes = map[string][]string{
	"C01": {"interleaved-step", "sharing-cotenant-dropped-port", "pool-renamed"},
	"C02": {"assignment-event", "modeA-fresh-automatic-allocation", "pool-renamed", "prefer-dual-completion", "recorded-address-adopted"},
	"C03": {"status-stability-checked", "frame-checked", "forced-resync", "pool-renamed"},
	"C06": {"recorded-address-checked-after-restart", "event-dropped-before-initial-load", "releasing-write-failed"},
	"C07": {"pending-service-at-quiescence", "sharing-cotenant-dropped-port", "releasing-write-failed"},
	"C11": {"counters-checked", "rebuild-compared", "modeA-release-probe", "pool-renamed"},
	"C04": {"quiescence-checked", "node-first-sight"},
	"C05": {"bgp-routes-expected-on-a-session", "bgp-several-routes-on-a-session", "bgp-peer-not-selecting-the-node", "service-reported-as-advertised-to-peers"},
	"C09": {"fresh-speaker-compared", "quiescence-checked"},
	"C10": {"bgp-eligible-node-service-pair", "bgp-eligible-under-local-policy", "bgp-ineligible-node-service-pair-with-address"},
	"C12": {"announcer-moved", "announcer-moved-because-the-owner-left", "announcer-kept-although-the-eligible-set-changed"},
	"C18": {"fork-reconcile", "fork-accepted-configuration-compared", "config-update-filtered"},
	"C13": {"history-linearizable", "query-answered", "query-unanswered", "frame-that-must-be-ignored", "gratuitous-frame", "refcounts-checked"},
	"C14": {"applied-configuration-interpreted", "conflicting-set-refused", "reloader-read-torn-file"},
	"C15": {"resource-interpreted", "reconcile-error-requeue"},
	"C16": {"open-accepted", "open-rejected", "prefix-len-0", "prefix-len-32", "withdraw-received"},
	"C17": {"converged", "converged-after-faults", "converged-on-a-reconnected-session", "connection-lost-in-the-middle-of-an-update-sequence", "set-while-not-established", "empty-set-requested", "silence-after-close-checked"},
	"C19": {"attempt-after-a-failed-signal", "attempt-coalesces-2-or-more-submissions", "attempt-while-a-submission-is-in-flight", "re-apply-request-from-the-validator", "identical-resubmission", "converged-after-faults"},
	"C20": {"serial-replay-compared", "listener-lock-handed-to-a-different-worker", "status-query-overlapping-a-handler-in-flight"},
}

var selftestVariants = map[string][]string{
	"kctl":     {"", "faults=on", "crashat", "modeA"},
	"kspk":     {""},
	"gnative":  {"", "openfuzz"},
	"gfrr":     {""},
	"gfrrk8s":  {""},
	"gl2":      {""},
	"gconc":    {""},
	"gconcspk": {""},
}
