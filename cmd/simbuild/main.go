// simbuild rewrites a scratch copy of selected MetalLB packages so that every source of
// nondeterminism without a seam gets one (DESIGN.md §2.2).  It never touches /repo: it
// loads the packages from the current working tree, rewrites the ASTs in memory, writes
// the results under -out and prints an overlay fragment (original path -> rewritten path).
//
// Rules:
//
//	R1 map order : `for k, v := range m` (m a map) -> iterate simrt.MapKeys(m)
//	R2 sync      : import "sync" -> simsync (same API, scheduler-owned locks)
//	R3 goroutines: `go f(x)` -> simrt.Go(func(){ f(x') }) with eagerly evaluated arguments
//	R4 calls     : table of call substitutions (pkg-qualified or package-local function names)
//
// Exit status 2 on any trouble (never 1: build trouble is not a property violation).
package main

import (
	"bytes"
	"encoding/json"
	"flag"
	"fmt"
	"go/ast"
	"go/format"
	"go/token"
	"go/types"
	"os"
	"path/filepath"
	"sort"
	"strings"

	"golang.org/x/tools/go/ast/astutil"
	"golang.org/x/tools/go/packages"
)

const simrtPath = "go.universe.tf/metallb/internal/verifsim/simrt"
const simsyncPath = "go.universe.tf/metallb/internal/verifsim/simsync"

type subst struct {
	Pkg    string `json:"pkg"`    // repo-relative package dir the rule applies to ("" = all)
	From   string `json:"from"`   // "ident" (package-local func) or "pkgname.Func"
	ToPkg  string `json:"toPkg"`  // import path of the replacement's package
	ToName string `json:"toName"` // package name used in source
	To     string `json:"to"`     // function name in ToPkg
	Min    int    `json:"min"`    // expected minimum number of rewritten sites
}

type report struct {
	Overlay map[string]string         `json:"overlay"`
	Counts  map[string]map[string]int `json:"counts"` // pkg -> rule -> sites
	Files   int                       `json:"files"`
}

func die(f string, a ...any) {
	fmt.Fprintf(os.Stderr, "simbuild: "+f+"\n", a...)
	os.Exit(2)
}

func main() {
	repo := flag.String("repo", "/repo", "repository root")
	out := flag.String("out", "", "output directory for rewritten sources")
	pkgsFlag := flag.String("pkgs", "", "comma separated repo-relative package dirs")
	rulesFlag := flag.String("rules", "r1", "comma separated rules: r1,r2,r3,r4")
	r2pkgs := flag.String("r2pkgs", "", "package dirs for r2/r3 (default: all of -pkgs)")
	substFile := flag.String("subst", "", "JSON file with R4 substitutions")
	flag.Parse()
	if *out == "" || *pkgsFlag == "" {
		die("need -out and -pkgs")
	}
	rules := map[string]bool{}
	for _, r := range strings.Split(*rulesFlag, ",") {
		rules[strings.TrimSpace(r)] = true
	}
	var substs []subst
	if *substFile != "" {
		b, err := os.ReadFile(*substFile)
		if err != nil {
			die("%v", err)
		}
		if err := json.Unmarshal(b, &substs); err != nil {
			die("subst: %v", err)
		}
	}
	r2set := map[string]bool{}
	if *r2pkgs != "" {
		for _, p := range strings.Split(*r2pkgs, ",") {
			r2set[strings.TrimSpace(p)] = true
		}
	}
	var patterns []string
	for _, p := range strings.Split(*pkgsFlag, ",") {
		patterns = append(patterns, "./"+strings.TrimPrefix(strings.TrimSpace(p), "./"))
	}
	// go/packages runs "go list" found through this process's PATH; the default go (1.23.5)
	// refuses /repo's go.mod, so the pre-installed 1.26.8 must come first.
	os.Setenv("PATH", "/opt/veriftools/go1.26.8/bin:"+os.Getenv("PATH"))
	os.Setenv("GOTOOLCHAIN", "local")
	cfg := &packages.Config{
		Mode: packages.NeedName | packages.NeedFiles | packages.NeedCompiledGoFiles | packages.NeedSyntax |
			packages.NeedTypes | packages.NeedTypesInfo | packages.NeedImports | packages.NeedDeps,
		Dir: *repo,
		Env: append(os.Environ(), "GOFLAGS=-mod=mod", "GOPROXY=off", "GOSUMDB=off", "GOTOOLCHAIN=local",
			"PATH=/opt/veriftools/go1.26.8/bin:"+os.Getenv("PATH")),
		BuildFlags: []string{"-tags=verif"},
	}
	pkgs, err := packages.Load(cfg, patterns...)
	if err != nil {
		die("load: %v", err)
	}
	rep := report{Overlay: map[string]string{}, Counts: map[string]map[string]int{}}
	for _, pkg := range pkgs {
		if len(pkg.Errors) > 0 {
			for _, e := range pkg.Errors {
				fmt.Fprintln(os.Stderr, "simbuild:", e)
			}
			die("package %s has errors", pkg.PkgPath)
		}
		rel := strings.TrimPrefix(pkg.PkgPath, "go.universe.tf/metallb")
		rel = strings.TrimPrefix(rel, "/")
		counts := map[string]int{}
		rep.Counts[rel] = counts
		doR23 := len(r2set) == 0 || r2set[rel]
		for i, f := range pkg.Syntax {
			fn := pkg.CompiledGoFiles[i]
			if !strings.HasPrefix(fn, *repo+"/") {
				continue // generated/cache file
			}
			rw := &rewriter{fset: pkg.Fset, info: pkg.TypesInfo, file: f, counts: counts, pkgRel: rel}
			if rules["r1"] {
				rw.r1()
			}
			if rules["r4"] {
				rw.r4(substs)
			}
			if rules["r5"] && doR23 {
				rw.r5()
				rw.r6()
			}
			if rules["r3"] && doR23 {
				rw.r3()
			}
			if rules["r2"] && doR23 {
				rw.r2()
			}
			if rw.unsupported != "" {
				die("%s: %s", fn, rw.unsupported)
			}
			if !rw.changed {
				continue
			}
			var buf bytes.Buffer
			if err := format.Node(&buf, pkg.Fset, f); err != nil {
				die("print %s: %v", fn, err)
			}
			dst := filepath.Join(*out, strings.TrimPrefix(fn, *repo+"/"))
			if err := os.MkdirAll(filepath.Dir(dst), 0o755); err != nil {
				die("%v", err)
			}
			if err := os.WriteFile(dst, buf.Bytes(), 0o644); err != nil {
				die("%v", err)
			}
			rep.Overlay[fn] = dst
			rep.Files++
		}
	}
	for _, s := range substs {
		if s.Min > 0 && rules["r4"] {
			got := 0
			for p, c := range rep.Counts {
				if s.Pkg == "" || s.Pkg == p {
					got += c["r4:"+s.From]
				}
			}
			if got < s.Min {
				die("R4 %s in %q: rewrote %d sites, expected at least %d", s.From, s.Pkg, got, s.Min)
			}
		}
	}
	enc := json.NewEncoder(os.Stdout)
	enc.SetIndent("", " ")
	_ = enc.Encode(rep)
}

type rewriter struct {
	fset        *token.FileSet
	info        *types.Info
	file        *ast.File
	counts      map[string]int
	pkgRel      string
	changed     bool
	unsupported string
	seq         int
}

func (rw *rewriter) fresh(prefix string) *ast.Ident {
	rw.seq++
	return ast.NewIdent(fmt.Sprintf("__%s%d", prefix, rw.seq))
}

func isBlank(e ast.Expr) bool {
	id, ok := e.(*ast.Ident)
	return e == nil || (ok && id.Name == "_")
}

func sel(pkg, name string) ast.Expr {
	return &ast.SelectorExpr{X: ast.NewIdent(pkg), Sel: ast.NewIdent(name)}
}

// r1 rewrites map ranges:
//
//	{ __vm := m; for _, k := range simrt.MapKeys(__vm) { v, ok := __vm[k]; if !ok { continue }; body } }
//
// m is evaluated once (as the range clause does), entries deleted during the loop are skipped and
// entries added are not visited (both allowed by the language specification).
func (rw *rewriter) r1() {
	n := 0
	hoisted := map[ast.Stmt]ast.Stmt{}
	astutil.Apply(rw.file, nil, func(c *astutil.Cursor) bool {
		if ls, ok := c.Node().(*ast.LabeledStmt); ok {
			if h, ok := hoisted[ls.Stmt]; ok {
				c.Replace(&ast.BlockStmt{List: []ast.Stmt{h, ls}})
			}
			return true
		}
		rs, ok := c.Node().(*ast.RangeStmt)
		if !ok {
			return true
		}
		tv, ok := rw.info.Types[rs.X]
		if !ok || tv.Type == nil {
			return true
		}
		if _, isMap := tv.Type.Underlying().(*types.Map); !isMap {
			return true
		}
		n++
		define := rs.Tok == token.DEFINE
		m := rw.fresh("vm")
		hoist := &ast.AssignStmt{Lhs: []ast.Expr{m}, Tok: token.DEFINE, Rhs: []ast.Expr{rs.X}}
		rs.X = &ast.CallExpr{Fun: sel("simrt", "MapKeys"), Args: []ast.Expr{m}}
		if rs.Key != nil || rs.Value != nil {
			var keyID *ast.Ident
			var pre []ast.Stmt
			if define && !isBlank(rs.Key) {
				keyID = rs.Key.(*ast.Ident)
			} else {
				keyID = rw.fresh("vk")
			}
			okID := rw.fresh("vok")
			idx := &ast.IndexExpr{X: m, Index: keyID}
			cont := func() ast.Stmt {
				return &ast.IfStmt{Cond: &ast.UnaryExpr{Op: token.NOT, X: okID}, Body: &ast.BlockStmt{List: []ast.Stmt{&ast.BranchStmt{Tok: token.CONTINUE}}}}
			}
			if !isBlank(rs.Value) {
				if define {
					pre = append(pre, &ast.AssignStmt{Lhs: []ast.Expr{rs.Value, okID}, Tok: token.DEFINE, Rhs: []ast.Expr{idx}}, cont())
				} else {
					vv := rw.fresh("vv")
					pre = append(pre, &ast.AssignStmt{Lhs: []ast.Expr{vv, okID}, Tok: token.DEFINE, Rhs: []ast.Expr{idx}}, cont(),
						&ast.AssignStmt{Lhs: []ast.Expr{rs.Value}, Tok: token.ASSIGN, Rhs: []ast.Expr{vv}})
				}
			} else {
				pre = append(pre, &ast.IfStmt{
					Init: &ast.AssignStmt{Lhs: []ast.Expr{ast.NewIdent("_"), okID}, Tok: token.DEFINE, Rhs: []ast.Expr{idx}},
					Cond: &ast.UnaryExpr{Op: token.NOT, X: okID},
					Body: &ast.BlockStmt{List: []ast.Stmt{&ast.BranchStmt{Tok: token.CONTINUE}}}})
			}
			if !define && !isBlank(rs.Key) {
				pre = append(pre, &ast.AssignStmt{Lhs: []ast.Expr{rs.Key}, Tok: token.ASSIGN, Rhs: []ast.Expr{keyID}})
			}
			rs.Key = ast.NewIdent("_")
			rs.Value = keyID
			rs.Tok = token.DEFINE
			rs.Body.List = append(pre, rs.Body.List...)
		}
		if _, labeled := c.Parent().(*ast.LabeledStmt); labeled {
			hoisted[rs] = hoist
		} else {
			c.Replace(&ast.BlockStmt{List: []ast.Stmt{hoist, rs}})
		}
		return true
	})
	if n > 0 {
		rw.counts["r1"] += n
		rw.changed = true
		astutil.AddNamedImport(rw.fset, rw.file, "simrt", simrtPath)
	}
}

// r5 rewrites select statements into simrt.Select so that the choice among several ready cases
// is the simulator's:
//
//	{ __c0 := ch0; ...; switch __si, __sv, __sok := simrt.Select(cases, hasDefault); __si { case 0: v := simrt.RecvAs(__c0, __sv); body ... } }
func (rw *rewriter) r5() {
	n := 0
	astutil.Apply(rw.file, nil, func(c *astutil.Cursor) bool {
		sel, ok := c.Node().(*ast.SelectStmt)
		if !ok {
			return true
		}
		if _, labeled := c.Parent().(*ast.LabeledStmt); labeled {
			rw.unsupported = "labeled select statement (R5)"
			return false
		}
		n++
		var pre []ast.Stmt
		var cases []ast.Expr
		var clauses []ast.Stmt
		hasDefault := false
		idx := 0
		for _, st := range sel.Body.List {
			cc := st.(*ast.CommClause)
			if cc.Comm == nil {
				hasDefault = true
				clauses = append(clauses, &ast.CaseClause{List: []ast.Expr{&ast.UnaryExpr{Op: token.SUB, X: &ast.BasicLit{Kind: token.INT, Value: "1"}}}, Body: cc.Body})
				continue
			}
			chID := rw.fresh("sc")
			use := &ast.AssignStmt{Lhs: []ast.Expr{ast.NewIdent("_"), ast.NewIdent("_")}, Tok: token.ASSIGN, Rhs: []ast.Expr{ast.NewIdent("__sv"), ast.NewIdent("__sok")}}
			body := []ast.Stmt{use}
			kv := func(k string, v ast.Expr) ast.Expr { return &ast.KeyValueExpr{Key: ast.NewIdent(k), Value: v} }
			switch comm := cc.Comm.(type) {
			case *ast.SendStmt:
				valID := rw.fresh("sv")
				pre = append(pre, &ast.AssignStmt{Lhs: []ast.Expr{chID}, Tok: token.DEFINE, Rhs: []ast.Expr{comm.Chan}},
					&ast.AssignStmt{Lhs: []ast.Expr{valID}, Tok: token.DEFINE, Rhs: []ast.Expr{comm.Value}})
				cases = append(cases, &ast.CompositeLit{Elts: []ast.Expr{kv("Dir", &ast.BasicLit{Kind: token.INT, Value: "1"}), kv("Ch", chID), kv("Val", valID)}})
			case *ast.ExprStmt:
				ue := comm.X.(*ast.UnaryExpr)
				pre = append(pre, &ast.AssignStmt{Lhs: []ast.Expr{chID}, Tok: token.DEFINE, Rhs: []ast.Expr{ue.X}})
				cases = append(cases, &ast.CompositeLit{Elts: []ast.Expr{kv("Dir", &ast.BasicLit{Kind: token.INT, Value: "0"}), kv("Ch", chID)}})
			case *ast.AssignStmt:
				ue := comm.Rhs[0].(*ast.UnaryExpr)
				pre = append(pre, &ast.AssignStmt{Lhs: []ast.Expr{chID}, Tok: token.DEFINE, Rhs: []ast.Expr{ue.X}})
				cases = append(cases, &ast.CompositeLit{Elts: []ast.Expr{kv("Dir", &ast.BasicLit{Kind: token.INT, Value: "0"}), kv("Ch", chID)}})
				recv := &ast.CallExpr{Fun: sel2("simrt", "RecvAs"), Args: []ast.Expr{chID, ast.NewIdent("__sv")}}
				rhs := []ast.Expr{recv}
				if len(comm.Lhs) == 2 {
					rhs = append(rhs, ast.NewIdent("__sok"))
				}
				body = append(body, &ast.AssignStmt{Lhs: comm.Lhs, Tok: comm.Tok, Rhs: rhs})
				// a received variable may be unused in the original only if blank; nothing to add
			default:
				rw.unsupported = "unexpected select communication clause (R5)"
				return false
			}
			body = append(body, cc.Body...)
			clauses = append(clauses, &ast.CaseClause{List: []ast.Expr{&ast.BasicLit{Kind: token.INT, Value: fmt.Sprint(idx)}}, Body: body})
			idx++
		}
		hd := "false"
		if hasDefault {
			hd = "true"
		}
		call := &ast.CallExpr{Fun: sel2("simrt", "Select"), Args: []ast.Expr{
			&ast.CompositeLit{Type: &ast.ArrayType{Elt: sel2("simrt", "SelCase")}, Elts: cases}, ast.NewIdent(hd)}}
		sw := &ast.SwitchStmt{
			Init: &ast.AssignStmt{Lhs: []ast.Expr{ast.NewIdent("__si"), ast.NewIdent("__sv"), ast.NewIdent("__sok")}, Tok: token.DEFINE, Rhs: []ast.Expr{call}},
			Tag:  ast.NewIdent("__si"),
			Body: &ast.BlockStmt{List: clauses},
		}
		if hasDefault && idx == 0 {
			// select with only a default
			sw.Init = nil
			sw.Tag = &ast.UnaryExpr{Op: token.SUB, X: &ast.BasicLit{Kind: token.INT, Value: "1"}}
		}
		c.Replace(&ast.BlockStmt{List: append(pre, sw)})
		return true
	})
	if n > 0 {
		rw.counts["r5"] += n
		rw.changed = true
		astutil.AddNamedImport(rw.fset, rw.file, "simrt", simrtPath)
	}
}

func sel2(pkg, name string) ast.Expr { return sel(pkg, name) }

// r6 rewrites channel send statements outside select into simrt.Send, so that a goroutine that
// had to block natively re-enters the simulation through the scheduler.
func (rw *rewriter) r6() {
	n := 0
	astutil.Apply(rw.file, nil, func(c *astutil.Cursor) bool {
		ss, ok := c.Node().(*ast.SendStmt)
		if !ok {
			return true
		}
		if _, inComm := c.Parent().(*ast.CommClause); inComm && c.Name() == "Comm" {
			return true
		}
		n++
		c.Replace(&ast.ExprStmt{X: &ast.CallExpr{Fun: sel("simrt", "Send"), Args: []ast.Expr{ss.Chan, ss.Value}}})
		return true
	})
	if n > 0 {
		rw.counts["r6"] += n
		rw.changed = true
		astutil.AddNamedImport(rw.fset, rw.file, "simrt", simrtPath)
	}
}

// r2 replaces the sync import.
func (rw *rewriter) r2() {
	for _, imp := range rw.file.Imports {
		if imp.Path.Value == `"sync"` {
			imp.Path.Value = `"` + simsyncPath + `"`
			imp.Name = ast.NewIdent("sync")
			rw.counts["r2"]++
			rw.changed = true
		}
	}
}

// r3 rewrites go statements.
func (rw *rewriter) r3() {
	n := 0
	astutil.Apply(rw.file, func(c *astutil.Cursor) bool {
		gs, ok := c.Node().(*ast.GoStmt)
		if !ok {
			return true
		}
		n++
		call := gs.Call
		// Evaluate function value and arguments eagerly, as `go` does.
		var lhs []ast.Expr
		var rhs []ast.Expr
		if _, isLit := call.Fun.(*ast.FuncLit); !isLit {
			if se, ok := call.Fun.(*ast.SelectorExpr); ok {
				// method value or package function: evaluate receiver expression eagerly
				if _, isPkg := rw.info.Uses[identOf(se.X)].(*types.PkgName); !isPkg {
					r := rw.fresh("gr")
					lhs = append(lhs, r)
					rhs = append(rhs, se.X)
					call.Fun = &ast.SelectorExpr{X: r, Sel: se.Sel}
				}
			}
		}
		for i, a := range call.Args {
			if _, isLit := a.(*ast.BasicLit); isLit {
				continue
			}
			v := rw.fresh("ga")
			lhs = append(lhs, v)
			rhs = append(rhs, a)
			call.Args[i] = v
		}
		goCall := &ast.ExprStmt{X: &ast.CallExpr{Fun: sel("simrt", "Go"), Args: []ast.Expr{
			&ast.FuncLit{Type: &ast.FuncType{Params: &ast.FieldList{}}, Body: &ast.BlockStmt{List: []ast.Stmt{&ast.ExprStmt{X: call}}}}}}}
		if len(lhs) == 0 {
			c.Replace(goCall)
			return false
		}
		blk := &ast.BlockStmt{List: []ast.Stmt{
			&ast.AssignStmt{Lhs: lhs, Tok: token.DEFINE, Rhs: rhs},
			goCall,
		}}
		c.Replace(blk)
		return false
	}, nil)
	if n > 0 {
		rw.counts["r3"] += n
		rw.changed = true
		astutil.AddNamedImport(rw.fset, rw.file, "simrt", simrtPath)
	}
}

func identOf(e ast.Expr) *ast.Ident {
	id, _ := e.(*ast.Ident)
	return id
}

// r4 applies call substitutions.
func (rw *rewriter) r4(substs []subst) {
	type key struct{ pkg, name string }
	need := map[string]string{}
	ast.Inspect(rw.file, func(node ast.Node) bool {
		call, ok := node.(*ast.CallExpr)
		if !ok {
			return true
		}
		for _, s := range substs {
			if s.Pkg != "" && s.Pkg != rw.pkgRel {
				continue
			}
			match := false
			if i := strings.IndexByte(s.From, '.'); i >= 0 {
				if se, ok := call.Fun.(*ast.SelectorExpr); ok {
					if id := identOf(se.X); id != nil && se.Sel.Name == s.From[i+1:] {
						if pn, ok := rw.info.Uses[id].(*types.PkgName); ok && pn.Imported().Name() == s.From[:i] {
							match = true
						}
					}
				}
			} else if id := identOf(call.Fun); id != nil && id.Name == s.From {
				if obj := rw.info.Uses[id]; obj != nil && obj.Parent() == obj.Pkg().Scope() {
					match = true
				}
			}
			if match {
				call.Fun = sel(s.ToName, s.To)
				need[s.ToName] = s.ToPkg
				rw.counts["r4:"+s.From]++
				rw.changed = true
			}
		}
		return true
	})
	names := make([]string, 0, len(need))
	for n := range need {
		names = append(names, n)
	}
	sort.Strings(names)
	for _, n := range names {
		already := false
		for _, imp := range rw.file.Imports {
			if strings.Trim(imp.Path.Value, `"`) == need[n] && (imp.Name == nil || imp.Name.Name == n) {
				already = true // same package already imported under the same (default) name
			}
		}
		if !already {
			astutil.AddNamedImport(rw.fset, rw.file, n, need[n])
		}
	}
	// imports that became unused are removed
	for _, imp := range rw.file.Imports {
		p := strings.Trim(imp.Path.Value, `"`)
		name := ""
		if imp.Name != nil {
			name = imp.Name.Name
		}
		if name == "_" || name == "." {
			continue
		}
		if !astutil.UsesImport(rw.file, p) && len(need) > 0 {
			if name != "" {
				astutil.DeleteNamedImport(rw.fset, rw.file, name, p)
			} else {
				astutil.DeleteImport(rw.fset, rw.file, p)
			}
		}
	}
}
