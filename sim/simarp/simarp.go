// Package simarp is the simulated raw socket under the layer-2 ARP responder: a net.PacketConn
// per interface whose reads and writes are park points of the goroutine engine.  The harness
// injects frames and observes what the responder writes while it handles each of them.
package simarp

import (
	"errors"
	"io"
	"net"
	"time"

	"github.com/mdlayher/arp"
	"go.universe.tf/metallb/internal/verifsim/simrt"
)

// Frame is one injected frame.
type Frame struct {
	ID          int
	Data        []byte
	Err         error // deliver a read error instead of data
	Taken       bool  // handed to the responder
	Done        bool  // the responder came back for the next frame (or the conn was closed)
	Replies     [][]byte
	WriteFailed bool // a write made while handling this frame failed (fault)
}

// Written is one frame written by the node.
type Written struct {
	Data   []byte
	During int // ID of the frame being handled (0: none)
	At     time.Duration
	Seq    int
}

// Conn is the PacketConn of one interface.
type Conn struct {
	Name     string
	queue    []*Frame
	current  *Frame
	Closed   bool
	Out      []Written
	WriteErr func() error // fault hook
	OnWrite  func(w Written)
	seq      int
}

// Conns are the connections created by Dial, by interface name.
var Conns = map[string]*Conn{}

func Reset() { Conns = map[string]*Conn{} }

// Dial has the signature of arp.Dial (substituted by simbuild R4).
func Dial(ifi *net.Interface) (*arp.Client, error) {
	c := &Conn{Name: ifi.Name}
	Conns[ifi.Name] = c
	return arp.New(ifi, c)
}

// Inject queues a frame for the responder.
func (c *Conn) Inject(f *Frame) { c.queue = append(c.queue, f) }

func (c *Conn) ReadFrom(b []byte) (int, net.Addr, error) {
	if c.current != nil {
		c.current.Done = true
		c.current = nil
	}
	if s := simrt.Active; s != nil {
		s.Park(&simrt.Op{Kind: "readfrom", Obj: c.Name, Enabled: func() bool { return len(c.queue) > 0 || c.Closed }})
	}
	if len(c.queue) == 0 {
		return 0, nil, io.EOF
	}
	f := c.queue[0]
	c.queue = c.queue[1:]
	f.Taken = true
	c.current = f
	if f.Err != nil {
		return 0, nil, f.Err
	}
	return copy(b, f.Data), nil, nil
}

func (c *Conn) WriteTo(b []byte, addr net.Addr) (int, error) {
	if s := simrt.Active; s != nil {
		s.Park(&simrt.Op{Kind: "writeto", Obj: c.Name, Enabled: func() bool { return true }})
	}
	if c.Closed {
		return 0, errors.New("use of closed connection")
	}
	if c.WriteErr != nil {
		if err := c.WriteErr(); err != nil {
			if c.current != nil {
				c.current.WriteFailed = true
			}
			return 0, err
		}
	}
	c.seq++
	w := Written{Data: append([]byte{}, b...), At: simrt.Now(), Seq: c.seq}
	if c.current != nil {
		w.During = c.current.ID
		c.current.Replies = append(c.current.Replies, w.Data)
	}
	c.Out = append(c.Out, w)
	if c.OnWrite != nil {
		c.OnWrite(w)
	}
	return len(b), nil
}

func (c *Conn) Close() error {
	c.Closed = true
	if c.current != nil {
		c.current.Done = true
	}
	for _, f := range c.queue {
		f.Done = true
	}
	return nil
}

func (c *Conn) LocalAddr() net.Addr                { return nil }
func (c *Conn) SetDeadline(t time.Time) error      { return nil }
func (c *Conn) SetReadDeadline(t time.Time) error  { return nil }
func (c *Conn) SetWriteDeadline(t time.Time) error { return nil }
