// Package specspk is the reference model of what speakers must announce (C04, C05, C09, C10,
// C12), computed from raw API objects only: pools (own address parser), advertisements with their
// pool and node selections, peers, nodes, services, endpoint slices and ground-truth membership.
// It never calls MetalLB code.  No election is mirrored: for layer 2 the model only yields the
// eligible set, the checks demand uniqueness / eligibility / agreement / minimal movement.
package specspk

import (
	"fmt"
	"net/netip"
	"sort"
	"strings"

	metallbv1beta1 "go.universe.tf/metallb/api/v1beta1"
	metallbv1beta2 "go.universe.tf/metallb/api/v1beta2"
	"go.universe.tf/metallb/internal/verifsim/specalloc"
	v1 "k8s.io/api/core/v1"
	discovery "k8s.io/api/discovery/v1"
	metav1 "k8s.io/apimachinery/pkg/apis/meta/v1"
	"k8s.io/apimachinery/pkg/labels"
)

// State is a snapshot of the cluster resources relevant to announcements.
type State struct {
	Pools       []metallbv1beta1.IPAddressPool
	L2Advs      []metallbv1beta1.L2Advertisement
	BGPAdvs     []metallbv1beta1.BGPAdvertisement
	Peers       []metallbv1beta2.BGPPeer
	Communities []metallbv1beta1.Community
	Nodes       []v1.Node
	Services    []v1.Service
	Slices      []discovery.EndpointSlice
	// Alive is the ground-truth set of nodes with a running speaker; MemberlistDisabled makes every
	// known node count as having a speaker.
	Alive              map[string]bool
	MemberlistDisabled bool
	IgnoreExcludeLB    bool
}

func matchAny(sels []metav1.LabelSelector, lbls map[string]string) bool {
	if len(sels) == 0 {
		return true
	}
	for i := range sels {
		s, err := metav1.LabelSelectorAsSelector(&sels[i])
		if err == nil && s.Matches(labels.Set(lbls)) {
			return true
		}
	}
	return false
}

// PoolOf returns the name of the single pool containing all addrs ("" if none).
func (st *State) PoolOf(addrs []netip.Addr) string {
	for _, p := range st.Pools {
		all := len(addrs) > 0
		for _, a := range addrs {
			in := false
			for _, s := range p.Spec.Addresses {
				if r, err := specalloc.ParseRange(s); err == nil && r.Contains(a) {
					in = true
				}
			}
			if !in {
				all = false
			}
		}
		if all {
			return p.Name
		}
	}
	return ""
}

func (st *State) pool(name string) *metallbv1beta1.IPAddressPool {
	for i := range st.Pools {
		if st.Pools[i].Name == name {
			return &st.Pools[i]
		}
	}
	return nil
}

func advAppliesToPool(names []string, sels []metav1.LabelSelector, p *metallbv1beta1.IPAddressPool) bool {
	if len(names) == 0 && len(sels) == 0 {
		return true
	}
	for _, n := range names {
		if n == p.Name {
			return true
		}
	}
	if len(sels) > 0 && matchAny(sels, p.Labels) {
		return true
	}
	return false
}

func (st *State) Node(name string) *v1.Node {
	for i := range st.Nodes {
		if st.Nodes[i].Name == name {
			return &st.Nodes[i]
		}
	}
	return nil
}

func networkUnavailable(n *v1.Node) bool {
	for _, c := range n.Status.Conditions {
		if c.Type == v1.NodeNetworkUnavailable {
			return c.Status == v1.ConditionTrue
		}
	}
	return false
}

func excluded(n *v1.Node) bool {
	_, ok := n.Labels["node.kubernetes.io/exclude-from-external-load-balancers"]
	return ok
}

// NodeUsable: known, network available, not excluded (unless ignored).
func (st *State) NodeUsable(name string) bool {
	n := st.Node(name)
	if n == nil || networkUnavailable(n) {
		return false
	}
	if !st.IgnoreExcludeLB && excluded(n) {
		return false
	}
	return true
}

func (st *State) HasSpeaker(name string) bool {
	if st.MemberlistDisabled {
		return st.Node(name) != nil
	}
	return st.Alive[name]
}

func canServe(c discovery.EndpointConditions) bool {
	if c.Ready == nil || *c.Ready {
		return true
	}
	return c.Serving != nil && *c.Serving
}

func (st *State) slicesOf(svc *v1.Service) []discovery.EndpointSlice {
	var out []discovery.EndpointSlice
	for _, s := range st.Slices {
		if s.Namespace == svc.Namespace && s.Labels[discovery.LabelServiceName] == svc.Name {
			out = append(out, s)
		}
	}
	return out
}

func isLocal(svc *v1.Service) bool {
	return svc.Spec.ExternalTrafficPolicy == v1.ServiceExternalTrafficPolicyTypeLocal
}

// StatusAddrs parses the recorded addresses of a service.
func StatusAddrs(svc *v1.Service) []netip.Addr {
	var out []netip.Addr
	for _, in := range svc.Status.LoadBalancer.Ingress {
		if a, err := netip.ParseAddr(in.IP); err == nil {
			out = append(out, a.Unmap())
		}
	}
	return out
}

// Announceable: the service is a LoadBalancer with recorded addresses inside one pool.
func (st *State) Announceable(svc *v1.Service) (string, bool) {
	if svc.Spec.Type != v1.ServiceTypeLoadBalancer {
		return "", false
	}
	a := StatusAddrs(svc)
	if len(a) == 0 || len(a) != len(svc.Status.LoadBalancer.Ingress) {
		return "", false
	}
	p := st.PoolOf(a)
	return p, p != ""
}

// L2Eligible returns the nodes eligible to announce svc's addresses over layer 2 (C04).
func (st *State) L2Eligible(svc *v1.Service) []string {
	poolName, ok := st.Announceable(svc)
	if !ok {
		return nil
	}
	p := st.pool(poolName)
	slices := st.slicesOf(svc)
	anyEndpoint := false
	hosts := map[string]bool{}
	for _, s := range slices {
		for _, ep := range s.Endpoints {
			if canServe(ep.Conditions) {
				anyEndpoint = true
				if ep.NodeName != nil {
					hosts[*ep.NodeName] = true
				}
			}
		}
	}
	if !anyEndpoint {
		return nil
	}
	var out []string
	for _, n := range st.Nodes {
		if !st.HasSpeaker(n.Name) || !st.NodeUsable(n.Name) {
			continue
		}
		sel := false
		for _, adv := range st.L2Advs {
			if advAppliesToPool(adv.Spec.IPAddressPools, adv.Spec.IPAddressPoolSelectors, p) && matchAny(adv.Spec.NodeSelectors, n.Labels) {
				sel = true
			}
		}
		if !sel {
			continue
		}
		if isLocal(svc) && !hosts[n.Name] {
			continue
		}
		out = append(out, n.Name)
	}
	sort.Strings(out)
	return out
}

// BGPEligible: node announces svc over BGP (C10).
func (st *State) BGPEligible(node string, svc *v1.Service) bool {
	poolName, ok := st.Announceable(svc)
	if !ok {
		return false
	}
	p := st.pool(poolName)
	n := st.Node(node)
	if n == nil || !st.NodeUsable(node) {
		return false
	}
	sel := false
	for _, adv := range st.BGPAdvs {
		if advAppliesToPool(adv.Spec.IPAddressPools, adv.Spec.IPAddressPoolSelectors, p) && matchAny(adv.Spec.NodeSelectors, n.Labels) {
			sel = true
		}
	}
	if !sel {
		return false
	}
	// an endpoint address is ready only if every slice entry carrying it is ready or serving
	ready := map[string]bool{}
	for _, s := range st.slicesOf(svc) {
		for _, ep := range s.Endpoints {
			if isLocal(svc) && (ep.NodeName == nil || *ep.NodeName != node) {
				continue
			}
			for _, a := range ep.Addresses {
				if _, seen := ready[a]; !seen {
					ready[a] = true
				}
				if !canServe(ep.Conditions) {
					ready[a] = false
				}
			}
		}
	}
	for _, r := range ready {
		if r {
			return true
		}
	}
	return false
}

// Route is one expected BGP route with its attributes, canonically rendered.
type Route struct {
	Prefix      string
	LocalPref   uint32
	Communities string // sorted, comma separated
}

func (r Route) String() string {
	return fmt.Sprintf("%s lp=%d comm=[%s]", r.Prefix, r.LocalPref, r.Communities)
}

func (st *State) communityValue(s string) string {
	for _, c := range st.Communities {
		for _, a := range c.Spec.Communities {
			if a.Name == s {
				return a.Value
			}
		}
	}
	return s
}

// PeerSelectsNode: a session to the peer exists on the node.
func (st *State) PeerSelectsNode(p *metallbv1beta2.BGPPeer, node string) bool {
	n := st.Node(node)
	if n == nil {
		return len(p.Spec.NodeSelectors) == 0
	}
	return matchAny(p.Spec.NodeSelectors, n.Labels)
}

// Routes returns the expected route set of (node, peer) and, per service, whether it contributes
// at least one prefix to this peer (C05).
func (st *State) Routes(node string, peer *metallbv1beta2.BGPPeer) (map[Route]bool, map[string]bool) {
	routes := map[Route]bool{}
	svcs := map[string]bool{}
	n := st.Node(node)
	if n == nil || !st.PeerSelectsNode(peer, node) {
		return routes, svcs
	}
	for i := range st.Services {
		svc := &st.Services[i]
		if !st.BGPEligible(node, svc) {
			continue
		}
		poolName, _ := st.Announceable(svc)
		p := st.pool(poolName)
		for _, a := range StatusAddrs(svc) {
			for _, adv := range st.BGPAdvs {
				if !advAppliesToPool(adv.Spec.IPAddressPools, adv.Spec.IPAddressPoolSelectors, p) || !matchAny(adv.Spec.NodeSelectors, n.Labels) {
					continue
				}
				if len(adv.Spec.Peers) > 0 {
					named := false
					for _, pn := range adv.Spec.Peers {
						if pn == peer.Name {
							named = true
						}
					}
					if !named {
						continue
					}
				}
				bits := 32
				if adv.Spec.AggregationLength != nil {
					bits = int(*adv.Spec.AggregationLength)
				}
				if !a.Is4() {
					bits = 128
					if adv.Spec.AggregationLengthV6 != nil {
						bits = int(*adv.Spec.AggregationLengthV6)
					}
				}
				pfx, err := a.Prefix(bits)
				if err != nil {
					continue
				}
				var comms []string
				seen := map[string]bool{}
				for _, c := range adv.Spec.Communities {
					v := st.communityValue(c)
					if !seen[v] {
						seen[v] = true
						comms = append(comms, v)
					}
				}
				sort.Strings(comms)
				routes[Route{pfx.String(), adv.Spec.LocalPref, strings.Join(comms, ",")}] = true
				svcs[svc.Namespace+"/"+svc.Name] = true
			}
		}
	}
	return routes, svcs
}
