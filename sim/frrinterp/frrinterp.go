// Package frrinterp parses and interprets the subset of frr.conf that MetalLB's templates can
// emit, with FRR's semantics for `network`, prefix-lists and route-maps (sequence order, first
// matching prefix-list entry decides, implicit deny, `on-match next`, additive communities), and
// produces the denotation of package bgpmodel.  Anything it does not understand is an error
// (reported by the checks as trouble in the machinery, never as a pass or as a violation).
package frrinterp

import (
	"fmt"
	"net/netip"
	"sort"
	"strconv"
	"strings"

	"go.universe.tf/metallb/internal/verifsim/bgpmodel"
)

type plEntry struct {
	seq    int
	permit bool
	any    bool
	prefix netip.Prefix
}

type rmEntry struct {
	seq       int
	permit    bool
	matches   []match
	setLP     *uint32
	setComm   []string
	setLarge  []string
	onMatchNx bool
}

type match struct {
	v6   bool
	list string
}

type afNeighbor struct {
	active      bool
	rmIn, rmOut string
}

type routerBlock struct {
	asn       uint32
	vrf       string
	routerID  string
	neighbors map[string]*nbr
	order     []string
	af        map[string]map[string]*afNeighbor // family -> peer -> settings
	networks  map[string][]string
}

type nbr struct {
	peer     string
	remoteAS string
	params   map[string]string
}

// Config is a parsed configuration.
type Config struct {
	pl4, pl6  map[string][]plEntry
	routeMaps map[string][]*rmEntry
	routers   []*routerBlock
	Hostname  string
	Other     []string
}

// Parse parses the text.
func Parse(text string) (*Config, error) {
	c := &Config{pl4: map[string][]plEntry{}, pl6: map[string][]plEntry{}, routeMaps: map[string][]*rmEntry{}}
	var curRM *rmEntry
	var curRouter *routerBlock
	curAF := ""
	inBFD := false
	lines := strings.Split(text, "\n")
	for ln, raw := range lines {
		line := strings.TrimSpace(raw)
		if line == "" || strings.HasPrefix(line, "!") {
			continue
		}
		f := strings.Fields(line)
		indented := strings.HasPrefix(raw, " ")
		fail := func(why string) error { return fmt.Errorf("frr.conf line %d %q: %s", ln+1, raw, why) }
		if !indented {
			curRM, curRouter, curAF, inBFD = nil, nil, "", false
		}
		switch {
		case !indented && (f[0] == "log" || f[0] == "debug" || f[0] == "hostname" || (f[0] == "ip" && f[1] == "nht") || (f[0] == "ipv6" && f[1] == "nht")):
			if f[0] == "hostname" && len(f) > 1 {
				c.Hostname = f[1]
			}
		case !indented && (f[0] == "ip" || f[0] == "ipv6") && len(f) >= 7 && f[1] == "prefix-list":
			// ip prefix-list NAME seq N permit|deny PREFIX|any
			if f[3] != "seq" {
				return nil, fail("prefix-list without seq")
			}
			seq, err := strconv.Atoi(f[4])
			if err != nil {
				return nil, fail("bad seq")
			}
			e := plEntry{seq: seq, permit: f[5] == "permit"}
			if f[5] != "permit" && f[5] != "deny" {
				return nil, fail("bad action")
			}
			if f[6] == "any" {
				e.any = true
			} else {
				p, err := netip.ParsePrefix(f[6])
				if err != nil {
					return nil, fail("bad prefix")
				}
				if p.Addr().Is4() != (f[0] == "ip") {
					return nil, fail("prefix family does not match the prefix-list family")
				}
				e.prefix = p
			}
			if len(f) > 7 {
				return nil, fail("prefix-list options (le/ge) are outside the interpreted subset")
			}
			m := c.pl4
			if f[0] == "ipv6" {
				m = c.pl6
			}
			// an entry with an existing seq replaces it
			lst := m[f[2]]
			replaced := false
			for i := range lst {
				if lst[i].seq == seq {
					lst[i], replaced = e, true
				}
			}
			if !replaced {
				lst = append(lst, e)
			}
			m[f[2]] = lst
		case !indented && f[0] == "route-map" && len(f) == 4:
			seq, err := strconv.Atoi(f[3])
			if err != nil || (f[2] != "permit" && f[2] != "deny") {
				return nil, fail("bad route-map header")
			}
			curRM = &rmEntry{seq: seq, permit: f[2] == "permit"}
			lst := c.routeMaps[f[1]]
			replaced := false
			for i := range lst {
				if lst[i].seq == seq {
					lst[i], replaced = curRM, true
				}
			}
			if !replaced {
				lst = append(lst, curRM)
			}
			c.routeMaps[f[1]] = lst
		case indented && curRM != nil:
			switch {
			case len(f) == 5 && f[0] == "match" && (f[1] == "ip" || f[1] == "ipv6") && f[2] == "address" && f[3] == "prefix-list":
				curRM.matches = append(curRM.matches, match{v6: f[1] == "ipv6", list: f[4]})
			case len(f) == 3 && f[0] == "set" && f[1] == "local-preference":
				v, err := strconv.ParseUint(f[2], 10, 32)
				if err != nil {
					return nil, fail("bad local-preference")
				}
				lp := uint32(v)
				curRM.setLP = &lp
			case len(f) == 4 && f[0] == "set" && f[1] == "community" && f[3] == "additive":
				curRM.setComm = append(curRM.setComm, f[2])
			case len(f) == 4 && f[0] == "set" && f[1] == "large-community" && f[3] == "additive":
				curRM.setLarge = append(curRM.setLarge, f[2])
			case len(f) == 2 && f[0] == "on-match" && f[1] == "next":
				curRM.onMatchNx = true
			default:
				return nil, fail("route-map clause outside the interpreted subset")
			}
		case !indented && f[0] == "router" && len(f) >= 3 && f[1] == "bgp":
			asn, err := strconv.ParseUint(f[2], 10, 32)
			if err != nil {
				return nil, fail("bad ASN")
			}
			curRouter = &routerBlock{asn: uint32(asn), neighbors: map[string]*nbr{}, af: map[string]map[string]*afNeighbor{"ipv4": {}, "ipv6": {}}, networks: map[string][]string{}}
			if len(f) == 5 && f[3] == "vrf" {
				curRouter.vrf = f[4]
			} else if len(f) != 3 {
				return nil, fail("bad router bgp header")
			}
			c.routers = append(c.routers, curRouter)
		case indented && curRouter != nil:
			switch {
			case f[0] == "no" || (f[0] == "bgp" && f[1] == "graceful-restart"):
			case f[0] == "bgp" && f[1] == "router-id" && len(f) == 3:
				curRouter.routerID = f[2]
			case f[0] == "address-family" && len(f) == 3 && f[2] == "unicast" && (f[1] == "ipv4" || f[1] == "ipv6"):
				curAF = f[1]
			case f[0] == "exit-address-family":
				curAF = ""
			case f[0] == "network" && len(f) == 2 && curAF != "":
				curRouter.networks[curAF] = append(curRouter.networks[curAF], f[1])
			case f[0] == "neighbor" && len(f) >= 3 && curAF != "":
				a := curRouter.af[curAF][f[1]]
				if a == nil {
					a = &afNeighbor{}
					curRouter.af[curAF][f[1]] = a
				}
				switch {
				case f[2] == "activate":
					a.active = true
				case f[2] == "route-map" && len(f) == 5 && f[4] == "in":
					a.rmIn = f[3]
				case f[2] == "route-map" && len(f) == 5 && f[4] == "out":
					a.rmOut = f[3]
				default:
					return nil, fail("address-family neighbor clause outside the interpreted subset")
				}
			case f[0] == "neighbor" && len(f) >= 3:
				n := curRouter.neighbors[f[1]]
				if n == nil {
					n = &nbr{peer: f[1], params: map[string]string{}}
					curRouter.neighbors[f[1]] = n
					curRouter.order = append(curRouter.order, f[1])
				}
				rest := f[2:]
				switch {
				case rest[0] == "remote-as" && len(rest) == 2:
					n.remoteAS = rest[1]
				case rest[0] == "interface" && len(rest) == 3 && rest[1] == "remote-as":
					n.remoteAS = rest[2]
					n.params["interface"] = ""
				case rest[0] == "timers" && len(rest) == 3 && rest[1] == "connect":
					n.params["timers connect"] = rest[2]
				case rest[0] == "timers" && len(rest) == 3:
					n.params["timers"] = rest[1] + " " + rest[2]
				case rest[0] == "bfd" && len(rest) == 1:
					n.params["bfd"] = ""
				case rest[0] == "bfd" && len(rest) == 3 && rest[1] == "profile":
					n.params["bfd profile"] = rest[2]
				case len(rest) == 1:
					n.params[rest[0]] = ""
				case len(rest) == 2:
					n.params[rest[0]] = rest[1]
				default:
					return nil, fail("neighbor clause outside the interpreted subset")
				}
			default:
				return nil, fail("router clause outside the interpreted subset")
			}
		case !indented && f[0] == "bfd" && len(f) == 1:
			inBFD = true
		case indented && inBFD:
			// bfd profiles are not part of the denotation
		default:
			if !indented {
				// extra configuration appended verbatim by the user
				c.Other = append(c.Other, line)
				inBFD = false
				continue
			}
			return nil, fail("statement outside the interpreted subset")
		}
		if !indented && f[0] == "bfd" {
			inBFD = true
		}
	}
	return c, nil
}

func permits(lst []plEntry, p netip.Prefix) bool {
	s := append([]plEntry(nil), lst...)
	sort.Slice(s, func(i, j int) bool { return s[i].seq < s[j].seq })
	for _, e := range s {
		if e.any || e.prefix == p {
			return e.permit
		}
	}
	return false // implicit deny (also for a list that does not exist... FRR treats a missing list as no match)
}

// evalOut runs a route through an outbound route-map: permitted?, attributes.
func (c *Config) evalOut(name string, p netip.Prefix) (bool, bgpmodel.Offer) {
	var o bgpmodel.Offer
	entries := append([]*rmEntry(nil), c.routeMaps[name]...)
	sort.Slice(entries, func(i, j int) bool { return entries[i].seq < entries[j].seq })
	if len(entries) == 0 {
		return false, o
	}
	permitted := false
	for _, e := range entries {
		ok := true
		for _, m := range e.matches {
			if m.v6 != !p.Addr().Is4() {
				ok = false
				break
			}
			lst := c.pl4[m.list]
			if m.v6 {
				lst = c.pl6[m.list]
			}
			if !permits(lst, p) {
				ok = false
				break
			}
		}
		if !ok {
			continue
		}
		if !e.permit {
			return false, bgpmodel.Offer{}
		}
		permitted = true
		if e.setLP != nil {
			o.LocalPref = *e.setLP
		}
		o.Comms = append(o.Comms, e.setComm...)
		o.Large = append(o.Large, e.setLarge...)
		if !e.onMatchNx {
			break
		}
	}
	sort.Strings(o.Comms)
	sort.Strings(o.Large)
	o.Comms, o.Large = dedup(o.Comms), dedup(o.Large)
	return permitted, o
}

func dedup(a []string) []string {
	var out []string
	for i, x := range a {
		if i == 0 || a[i-1] != x {
			out = append(out, x)
		}
	}
	return out
}

// acceptsInbound: some route could pass the inbound route-map.
func (c *Config) acceptsInbound(name string) bool {
	entries := c.routeMaps[name]
	if len(entries) == 0 {
		return true // a missing route-map filters nothing
	}
	s := append([]*rmEntry(nil), entries...)
	sort.Slice(s, func(i, j int) bool { return s[i].seq < s[j].seq })
	for _, e := range s {
		if len(e.matches) == 0 {
			return e.permit
		}
		if e.permit {
			return true // conservatively: a permit entry with matches may accept something
		}
	}
	return false
}

// Denote interprets the configuration.  problems lists things that have no place in the
// denotation but violate the statement (a neighbor accepting inbound routes, an activated
// neighbor without outbound filter, ...).
func (c *Config) Denote() (*bgpmodel.Denotation, []string) {
	d := &bgpmodel.Denotation{Routers: map[string]*bgpmodel.Router{}}
	var problems []string
	for _, rb := range c.routers {
		rk := fmt.Sprintf("%d/%s", rb.asn, rb.vrf)
		if d.Routers[rk] != nil {
			problems = append(problems, fmt.Sprintf("router bgp %d vrf %q is declared twice", rb.asn, rb.vrf))
			continue
		}
		r := &bgpmodel.Router{ASN: rb.asn, VRF: rb.vrf, RouterID: rb.routerID, Neighbors: map[string]*bgpmodel.Neighbor{}}
		r.Networks4 = append([]string{}, rb.networks["ipv4"]...)
		r.Networks6 = append([]string{}, rb.networks["ipv6"]...)
		sort.Strings(r.Networks4)
		sort.Strings(r.Networks6)
		r.Networks4, r.Networks6 = dedup(r.Networks4), dedup(r.Networks6)
		d.Routers[rk] = r
		for _, peer := range rb.order {
			nb := rb.neighbors[peer]
			n := &bgpmodel.Neighbor{Peer: peer, RemoteAS: nb.remoteAS, Params: map[string]string{}, Offers: map[string]bgpmodel.Offer{}}
			for k, v := range nb.params {
				switch k {
				case "interface", "bfd", "disable-connected-check":
				default:
					n.Params[k] = v
				}
			}
			for fam, nets := range map[string][]string{"ipv4": r.Networks4, "ipv6": r.Networks6} {
				a := rb.af[fam][peer]
				if a == nil || !a.active {
					continue
				}
				if fam == "ipv4" {
					n.ActiveV4 = true
				} else {
					n.ActiveV6 = true
				}
				if a.rmOut == "" {
					problems = append(problems, fmt.Sprintf("neighbor %s is activated for %s without an outbound route-map", peer, fam))
				}
				if a.rmIn == "" || c.acceptsInbound(a.rmIn) {
					problems = append(problems, fmt.Sprintf("neighbor %s accepts inbound %s routes (route-map %q)", peer, fam, a.rmIn))
				}
				for _, ns := range nets {
					p, err := netip.ParsePrefix(ns)
					if err != nil {
						problems = append(problems, "bad network "+ns)
						continue
					}
					if ok, o := c.evalOut(a.rmOut, p); ok {
						n.Offers[p.String()] = o
					}
				}
			}
			r.Neighbors[peer] = n
		}
		for fam, m := range rb.af {
			for peer := range m {
				if rb.neighbors[peer] == nil {
					problems = append(problems, fmt.Sprintf("address-family %s refers to undeclared neighbor %s", fam, peer))
				}
			}
		}
	}
	sort.Strings(problems)
	return d, problems
}
