// Package bgpmodel is the requested-state model of the FRR and FRR-K8s back ends (C14, C15):
// the set of sessions with their parameters and advertisements, and the denotation a correct
// configuration must have (per router: originated prefixes; per neighbor: exactly the offered
// prefixes with local preference and communities, session parameters, per-family activation).
// It is written from the property statements and shares no code with MetalLB.
package bgpmodel

import (
	"fmt"
	"net/netip"
	"sort"
	"strings"
)

type Adv struct {
	Prefix    string // canonical CIDR
	LocalPref uint32
	Comms     []string // standard communities "a:b"
	Large     []string // large communities "a:b:c"
}

type Session struct {
	MyASN           uint32
	RouterID        string // "" if none
	VRF             string
	PeerASN         uint32
	DynamicASN      string
	PeerAddr        string
	PeerIface       string
	Port            uint16
	HoldTime        int64 // seconds, -1 none
	KeepAlive       int64
	ConnectTime     int64 // 0 none
	Password        string
	PasswordSecret  string // "namespace/name" (FRR-K8s mode)
	SrcAddr         string
	EBGPMultiHop    bool
	BFDProfile      string
	GracefulRestart bool
	DisableMP       bool
	Advs            []Adv
}

// State is the set of live sessions.
type State struct {
	Sessions map[string]*Session
}

func NewState() *State { return &State{Sessions: map[string]*Session{}} }

func (st *State) Clone() *State {
	c := NewState()
	for k, s := range st.Sessions {
		x := *s
		x.Advs = append([]Adv(nil), s.Advs...)
		c.Sessions[k] = &x
	}
	return c
}

type Offer struct {
	LocalPref uint32
	Comms     []string
	Large     []string
}

type Neighbor struct {
	Peer     string // address or interface
	RemoteAS string
	Params   map[string]string
	ActiveV4 bool
	ActiveV6 bool
	Offers   map[string]Offer // prefix -> attributes
}

type Router struct {
	ASN       uint32
	VRF       string
	RouterID  string
	Networks4 []string
	Networks6 []string
	Neighbors map[string]*Neighbor // key: peer
}

type Denotation struct {
	Routers map[string]*Router // key: "asn/vrf"
}

func isV4(prefix string) bool {
	p, err := netip.ParsePrefix(prefix)
	return err == nil && p.Addr().Is4()
}

func uniqSorted(a []string) []string {
	m := map[string]bool{}
	for _, x := range a {
		m[x] = true
	}
	out := make([]string, 0, len(m))
	for x := range m {
		out = append(out, x)
	}
	sort.Strings(out)
	return out
}

// Conflict reports a prefix requested twice on one session with different local preferences
// (such a request must be refused).
func (s *Session) Conflict() string {
	lp := map[string]uint32{}
	for _, a := range s.Advs {
		if v, ok := lp[a.Prefix]; ok && v != a.LocalPref {
			return a.Prefix
		}
		lp[a.Prefix] = a.LocalPref
	}
	return ""
}

// Expected computes the denotation of the requested state.
func (st *State) Expected() *Denotation {
	d := &Denotation{Routers: map[string]*Router{}}
	keys := make([]string, 0, len(st.Sessions))
	for k := range st.Sessions {
		keys = append(keys, k)
	}
	sort.Strings(keys)
	for _, k := range keys {
		s := st.Sessions[k]
		rk := fmt.Sprintf("%d/%s", s.MyASN, s.VRF)
		r := d.Routers[rk]
		if r == nil {
			r = &Router{ASN: s.MyASN, VRF: s.VRF, RouterID: s.RouterID, Neighbors: map[string]*Neighbor{}}
			d.Routers[rk] = r
		}
		peer := s.PeerAddr
		if s.PeerIface != "" {
			peer = s.PeerIface
		}
		n := &Neighbor{Peer: peer, Params: map[string]string{}, Offers: map[string]Offer{}}
		n.RemoteAS = fmt.Sprint(s.PeerASN)
		if s.DynamicASN != "" {
			n.RemoteAS = s.DynamicASN
		}
		if s.Port != 0 {
			n.Params["port"] = fmt.Sprint(s.Port)
		}
		if s.HoldTime >= 0 && s.KeepAlive >= 0 {
			n.Params["timers"] = fmt.Sprintf("%d %d", s.KeepAlive, s.HoldTime)
		}
		if s.ConnectTime != 0 {
			n.Params["timers connect"] = fmt.Sprint(s.ConnectTime)
		}
		if s.Password != "" {
			n.Params["password"] = s.Password
		}
		if s.PasswordSecret != "" {
			n.Params["password-secret"] = s.PasswordSecret
		}
		if s.SrcAddr != "" {
			n.Params["update-source"] = s.SrcAddr
		}
		if s.EBGPMultiHop {
			n.Params["ebgp-multihop"] = ""
		}
		if s.GracefulRestart {
			n.Params["graceful-restart"] = ""
		}
		if s.BFDProfile != "" {
			n.Params["bfd profile"] = s.BFDProfile
		}
		peerV4 := false
		if s.PeerIface == "" {
			if a, err := netip.ParseAddr(s.PeerAddr); err == nil {
				peerV4 = a.Is4()
			}
		}
		switch {
		case !s.DisableMP:
			n.ActiveV4, n.ActiveV6 = true, true
		case s.PeerIface != "":
			// unnumbered with multiprotocol disabled: no family can be singled out
		case peerV4:
			n.ActiveV4 = true
		default:
			n.ActiveV6 = true
		}
		for _, a := range s.Advs {
			if isV4(a.Prefix) {
				r.Networks4 = append(r.Networks4, a.Prefix)
			} else {
				r.Networks6 = append(r.Networks6, a.Prefix)
			}
			if (isV4(a.Prefix) && !n.ActiveV4) || (!isV4(a.Prefix) && !n.ActiveV6) {
				continue
			}
			o := n.Offers[a.Prefix]
			o.LocalPref = a.LocalPref
			o.Comms = uniqSorted(append(o.Comms, a.Comms...))
			o.Large = uniqSorted(append(o.Large, a.Large...))
			n.Offers[a.Prefix] = o
		}
		r.Neighbors[peer] = n
	}
	for _, r := range d.Routers {
		r.Networks4 = uniqSorted(r.Networks4)
		r.Networks6 = uniqSorted(r.Networks6)
	}
	return d
}

// Canonical renders a denotation deterministically.
func (d *Denotation) Canonical() string {
	var sb strings.Builder
	rks := make([]string, 0, len(d.Routers))
	for k := range d.Routers {
		rks = append(rks, k)
	}
	sort.Strings(rks)
	for _, rk := range rks {
		r := d.Routers[rk]
		fmt.Fprintf(&sb, "router %s id=%s net4=%v net6=%v\n", rk, r.RouterID, r.Networks4, r.Networks6)
		nks := make([]string, 0, len(r.Neighbors))
		for k := range r.Neighbors {
			nks = append(nks, k)
		}
		sort.Strings(nks)
		for _, nk := range nks {
			n := r.Neighbors[nk]
			pk := make([]string, 0, len(n.Params))
			for k := range n.Params {
				pk = append(pk, k)
			}
			sort.Strings(pk)
			var ps []string
			for _, k := range pk {
				ps = append(ps, k+"="+n.Params[k])
			}
			fmt.Fprintf(&sb, "  neighbor %s remote-as %s params[%s] v4=%v v6=%v\n", n.Peer, n.RemoteAS, strings.Join(ps, ", "), n.ActiveV4, n.ActiveV6)
			oks := make([]string, 0, len(n.Offers))
			for k := range n.Offers {
				oks = append(oks, k)
			}
			sort.Strings(oks)
			for _, p := range oks {
				o := n.Offers[p]
				fmt.Fprintf(&sb, "    offer %s lp=%d comm=%v large=%v\n", p, o.LocalPref, o.Comms, o.Large)
			}
		}
	}
	return sb.String()
}

// Key is a canonical rendering of the requested state itself (for the determinism clause).
func (st *State) Key() string {
	keys := make([]string, 0, len(st.Sessions))
	for k := range st.Sessions {
		keys = append(keys, k)
	}
	sort.Strings(keys)
	var sb strings.Builder
	for _, k := range keys {
		s := *st.Sessions[k]
		advs := append([]Adv(nil), s.Advs...)
		sort.SliceStable(advs, func(i, j int) bool { return advs[i].Prefix < advs[j].Prefix })
		// advertisements of one prefix merge: order inside the session is irrelevant to the denotation
		merged := map[string]Offer{}
		for _, a := range advs {
			o := merged[a.Prefix]
			o.LocalPref = a.LocalPref
			o.Comms = uniqSorted(append(o.Comms, a.Comms...))
			o.Large = uniqSorted(append(o.Large, a.Large...))
			merged[a.Prefix] = o
		}
		s.Advs = nil
		fmt.Fprintf(&sb, "%s %+v %v\n", k, s, merged)
	}
	return sb.String()
}
