// Package runner is the worker side of every check: it executes simulated runs from seeds,
// shrinks failing choice sequences, writes replay files, re-executes replay files, and reports
// counters to the driver (cmd/verifcheck) as JSON.
package runner

import (
	"encoding/binary"
	"encoding/json"
	"fmt"
	"hash/fnv"
	"os"
	"path/filepath"
	"sort"
	"strconv"
	"strings"
	"time"

	"go.universe.tf/metallb/internal/verifsim/choice"
)

// Violation describes one property violation found by an oracle.
type Violation struct {
	Property  string `json:"property"`
	Invariant string `json:"invariant"`
	Signature string `json:"signature,omitempty"` // cause signature (known-finding matching)
	Message   string `json:"message"`
	// NoShrink: the violation cannot be re-observed in the same process (the race detector reports each
	// race once per process); the replay file is written from the original run and verified by the
	// driver in a fresh process.
	NoShrink bool `json:"no_shrink,omitempty"`
}

func (v *Violation) Class() string { return v.Property + "/" + v.Invariant + "/" + v.Signature }

// Result is what one simulated run reports.
type Result struct {
	// EnumPoints: number of fault points the run passed (fault-point enumeration, VERIF_ENUM)
	EnumPoints  int
	Violation   *Violation
	Known       []Violation // violations matching a listed known finding (run continued or stopped)
	Stats       map[string]int64
	SimTime     time.Duration
	Steps       int
	SchedHash   uint64
	StateHashes []uint64
	NonTrivial  bool
	Log         []string
}

// Env is what a run receives.
type Env struct {
	Ch      *choice.Chooser
	Props   map[string]bool
	Tier    string
	Variant string
	Verbose bool
	Known   map[string]bool // signatures of listed known findings
}

func (e *Env) On(p string) bool { return e.Props[p] }

// EnumNone is the first decision of a fault-point-enumeration run that forces no fault.
const EnumNone = 1<<16 - 1

type RunFunc func(env *Env) *Result

// ReplayFile is the on-disk format of a minimised failing run.
type ReplayFile struct {
	Engine    string        `json:"engine"`
	Variant   string        `json:"variant"`
	Property  string        `json:"property"`
	Props     []string      `json:"props"`
	Tier      string        `json:"tier"`
	Seed      uint64        `json:"seed"`
	Violation Violation     `json:"violation"`
	Draws     []choice.Draw `json:"draws"`
	Trace     []string      `json:"trace"`
	Shrunk    string        `json:"shrunk"`
	Known     []string      `json:"known_signatures"`    // listed findings in force when the run was recorded
	SeedOnly  bool          `json:"seed_only,omitempty"` // the run is re-created from its seed (a run that crashes the process cannot be shrunk)
}

type Found struct {
	Violation Violation `json:"violation"`
	Seed      uint64    `json:"seed"`
	Replay    string    `json:"replay"`
	Known     bool      `json:"known"`
}

// Report is the JSON a worker process writes.
type Report struct {
	Engine     string           `json:"engine"`
	Variant    string           `json:"variant"`
	Mode       string           `json:"mode"`
	Runs       int              `json:"runs"`
	NonTrivial int              `json:"non_trivial"`
	FirstSeed  uint64           `json:"first_seed"`
	LastSeed   uint64           `json:"last_seed"`
	WallS      float64          `json:"wall_s"`
	SimTimeS   float64          `json:"sim_time_s"`
	Steps      int64            `json:"steps"`
	Draws      int64            `json:"draws"`
	Stats      map[string]int64 `json:"stats"`
	Found      []Found          `json:"found"`
	Samples    [][]string       `json:"samples"`
	Error      string           `json:"error,omitempty"`
	Replayed   *Violation       `json:"replayed,omitempty"`
	Diverged   string           `json:"diverged,omitempty"`
	EventHash  string           `json:"event_hash,omitempty"`
}

func envInt(name string, def int64) int64 {
	if s := os.Getenv(name); s != "" {
		v, err := strconv.ParseInt(s, 10, 64)
		if err == nil {
			return v
		}
	}
	return def
}

func propsFromEnv() map[string]bool {
	m := map[string]bool{}
	for _, p := range strings.Split(os.Getenv("VERIF_PROPS"), ",") {
		if p = strings.TrimSpace(p); p != "" {
			m[p] = true
		}
	}
	return m
}

func knownFromEnv() map[string]bool {
	m := map[string]bool{}
	path := os.Getenv("VERIF_KNOWN")
	if path == "" {
		return m
	}
	b, err := os.ReadFile(path)
	if err != nil {
		return m
	}
	var kf struct {
		Findings []struct {
			Property  string `json:"property"`
			Signature string `json:"signature"`
		} `json:"findings"`
	}
	if json.Unmarshal(b, &kf) == nil {
		for _, f := range kf.Findings {
			m[f.Signature] = true
		}
	}
	return m
}

func safeRun(run RunFunc, env *Env) (res *Result, panicked string) {
	defer func() {
		if r := recover(); r != nil {
			if _, ok := r.(choice.ErrBudget); ok {
				res = &Result{Stats: map[string]int64{"run-budget-exceeded": 1}}
				return
			}
			panic(r)
		}
	}()
	return run(env), ""
}

// PanicOrigin inspects the stack of a recovered panic and tells whether the panicking frame
// belongs to MetalLB code (a crash of the system under test) or to the harness/simulator.
// Call it from the deferred function that recovered.
func PanicOrigin(stack string) (metallb bool, where string) {
	lines := strings.Split(stack, "\n")
	seenPanic := false
	for i := 0; i+1 < len(lines); i++ {
		l := lines[i]
		if strings.HasPrefix(l, "panic(") {
			seenPanic = true
			continue
		}
		if !seenPanic || strings.HasPrefix(l, "\t") {
			continue
		}
		file := strings.TrimSpace(lines[i+1])
		if strings.HasPrefix(l, "runtime.") || strings.Contains(file, "/src/runtime/") {
			continue
		}
		harness := strings.Contains(file, "verifsim") || strings.Contains(file, "zz_verif") || !strings.Contains(file, "/repo/") && !strings.Contains(l, "go.universe.tf/metallb")
		return !harness, l + " " + file
	}
	return false, ""
}

// HashStrings hashes an event log.
func HashStrings(ss []string) uint64 {
	h := fnv.New64a()
	for _, s := range ss {
		h.Write([]byte(s))
		h.Write([]byte{0})
	}
	return h.Sum64()
}

// Main is called by the in-package test function of an engine.
func Main(engine string, run RunFunc) (exit int) {
	out := os.Getenv("VERIF_OUT")
	mode := os.Getenv("VERIF_MODE")
	rep := &Report{Engine: engine, Mode: mode, Variant: os.Getenv("VERIF_VARIANT"), Stats: map[string]int64{}}
	defer func() {
		if out != "" {
			b, _ := json.MarshalIndent(rep, "", " ")
			_ = os.WriteFile(out, b, 0o644)
		}
	}()
	props := propsFromEnv()
	known := knownFromEnv()
	tier := os.Getenv("VERIF_TIER")
	if tier == "" {
		tier = "quick"
	}
	start := time.Now()
	switch mode {
	case "replay":
		b, err := os.ReadFile(os.Getenv("VERIF_REPLAY"))
		if err != nil {
			rep.Error = err.Error()
			return 2
		}
		var rf ReplayFile
		if err := json.Unmarshal(b, &rf); err != nil {
			rep.Error = err.Error()
			return 2
		}
		p := map[string]bool{}
		for _, x := range rf.Props {
			p[x] = true
		}
		ch := choice.NewStrictReplay(rf.Draws)
		if rf.SeedOnly {
			ch = choice.NewSeeded(rf.Seed)
		}
		kn := map[string]bool{}
		for _, x := range rf.Known {
			kn[x] = true
		}
		res, _ := safeRun(run, &Env{Ch: ch, Props: p, Tier: rf.Tier, Variant: rf.Variant, Verbose: true, Known: kn})
		rep.Runs = 1
		rep.Diverged = ch.Diverged
		rep.Replayed = res.Violation
		rep.Samples = [][]string{res.Log}
		rep.EventHash = fmt.Sprintf("%016x", HashStrings(res.Log))
		rep.WallS = time.Since(start).Seconds()
		if os.Getenv("VERIF_PRINT") != "" {
			for _, l := range res.Log {
				fmt.Println(l)
			}
		}
		return 0
	case "trace":
		seed := uint64(envInt("VERIF_SEED", 1))*1_000_000 + uint64(envInt("VERIF_FIRST", 0))
		res, _ := safeRun(run, &Env{Ch: choice.NewSeeded(seed), Props: props, Tier: tier, Variant: rep.Variant, Verbose: true, Known: known})
		for _, l := range res.Log {
			fmt.Println(l)
		}
		fmt.Printf("seed %d: violation=%v stats=%v steps=%d simtime=%v nontrivial=%v\n", seed, res.Violation, res.Stats, res.Steps, res.SimTime, res.NonTrivial)
		rep.Runs = 1
		return 0
	case "hash":
		// determinism self-test: run the given seeds and print one event-log hash per seed
		base := uint64(envInt("VERIF_SEED", 1))
		first := uint64(envInt("VERIF_FIRST", 0))
		count := int(envInt("VERIF_COUNT", 8))
		var hs []string
		for i := 0; i < count; i++ {
			seed := base*1_000_000 + first + uint64(i)
			res, _ := safeRun(run, &Env{Ch: choice.NewSeeded(seed), Props: props, Tier: tier, Variant: rep.Variant, Verbose: true, Known: known})
			v := ""
			if res.Violation != nil {
				v = res.Violation.Class() + res.Violation.Message
			}
			hs = append(hs, fmt.Sprintf("%d:%016x", seed, HashStrings(append(res.Log, v))))
			rep.Runs++
		}
		rep.EventHash = strings.Join(hs, ",")
		return 0
	}
	// explore
	base := uint64(envInt("VERIF_SEED", 1))
	first := uint64(envInt("VERIF_FIRST", 0))
	count := int(envInt("VERIF_COUNT", 100))
	wall := time.Duration(envInt("VERIF_WALL", 3600)) * time.Second
	stride := uint64(envInt("VERIF_STRIDE", 1))
	maxFound := int(envInt("VERIF_MAXFOUND", 3))
	replayDir := os.Getenv("VERIF_REPLAY_DIR")
	rep.FirstSeed = base*1_000_000 + first
	var hashFile *os.File
	if out != "" {
		hashFile, _ = os.Create(out + ".hashes")
		defer hashFile.Close()
	}
	seenClass := map[string]bool{}
	var knownList []string
	for k := range known {
		knownList = append(knownList, k)
	}
	sort.Strings(knownList)
	var propList []string
	for p := range props {
		propList = append(propList, p)
	}
	sort.Strings(propList)
	enum := os.Getenv("VERIF_ENUM") != ""
	stop := false
	// oneRun executes one seeded run (ch decides everything), accounts for it and, on a new
	// violation class, minimises it and writes the replay file.  Returns the number of fault
	// points the run passed and a process exit code (0 = go on).
	oneRun := func(seed uint64, ch *choice.Chooser, i int, tag string) (int, int) {
		sample := len(rep.Samples) < 2 && i%7 == 3
		res, _ := safeRun(run, &Env{Ch: ch, Props: props, Tier: tier, Variant: rep.Variant, Verbose: sample, Known: known})
		rep.Runs++
		rep.SimTimeS += res.SimTime.Seconds()
		rep.Steps += int64(res.Steps)
		rep.Draws += int64(len(ch.Trace))
		for k, v := range res.Stats {
			rep.Stats[k] += v
		}
		if res.NonTrivial {
			rep.NonTrivial++
			if hashFile != nil {
				var b [8]byte
				binary.LittleEndian.PutUint64(b[:], res.SchedHash)
				hashFile.Write(b[:])
			}
		}
		if sample && res.Violation == nil {
			l := res.Log
			if len(l) > 60 {
				l = append(append([]string{}, l[:50]...), fmt.Sprintf("... (%d more events)", len(l)-50))
			}
			rep.Samples = append(rep.Samples, l)
		}
		for _, kv := range res.Known {
			cls := "known:" + kv.Class()
			if !seenClass[cls] {
				seenClass[cls] = true
				rep.Found = append(rep.Found, Found{Violation: kv, Seed: seed, Known: true})
			}
		}
		if res.Violation == nil {
			return res.EnumPoints, 0
		}
		v := *res.Violation
		if seenClass[v.Class()] {
			rep.Stats["violations-duplicate-class"]++
			return res.EnumPoints, 0
		}
		seenClass[v.Class()] = true
		if v.NoShrink {
			rf := ReplayFile{Engine: engine, Variant: rep.Variant, Property: v.Property, Props: propList, Tier: tier, Seed: seed,
				Violation: v, Draws: ch.Trace, Trace: res.Log, Shrunk: "not shrunk: only observable once per process", Known: knownList}
			path := ""
			if replayDir != "" {
				path = filepath.Join(replayDir, fmt.Sprintf("%s-%s-%d%s.json", v.Property, engine, seed, tag))
				b, _ := json.MarshalIndent(rf, "", " ")
				_ = os.MkdirAll(replayDir, 0o755)
				_ = os.WriteFile(path, b, 0o644)
			}
			rep.Found = append(rep.Found, Found{Violation: v, Seed: seed, Replay: path})
			stop = true // later runs of this process cannot report the same race again
			return res.EnumPoints, 0
		}
		// shrink
		ks := ch.Ks()
		env := func(c *choice.Chooser, verbose bool) *Env {
			return &Env{Ch: c, Props: props, Tier: tier, Variant: rep.Variant, Verbose: verbose, Known: known}
		}
		same := func(ks []int) bool {
			r, _ := safeRun(run, env(choice.NewReplay(ks), false))
			return r.Violation != nil && r.Violation.Class() == v.Class()
		}
		shrunk, note := Shrink(ks, same, time.Duration(envInt("VERIF_SHRINK_S", 45))*time.Second)
		c2 := choice.NewReplay(shrunk)
		r2, _ := safeRun(run, env(c2, true))
		if r2.Violation == nil || r2.Violation.Class() != v.Class() {
			// should not happen: shrinking keeps only reproducing edits
			c2 = choice.NewReplay(ks)
			r2, _ = safeRun(run, env(c2, true))
			note += "; shrunk sequence did not reproduce, kept original"
		}
		if r2.Violation == nil {
			rep.Error = fmt.Sprintf("seed %d%s: violation %s did not reproduce in-process (forgotten nondeterminism?)", seed, tag, v.Class())
			return 0, 2
		}
		rf := ReplayFile{Engine: engine, Variant: rep.Variant, Property: v.Property, Props: propList, Tier: tier, Seed: seed,
			Violation: *r2.Violation, Draws: c2.Trace, Trace: r2.Log, Shrunk: note, Known: knownList}
		path := ""
		if replayDir != "" {
			path = filepath.Join(replayDir, fmt.Sprintf("%s-%s-%d%s.json", v.Property, engine, seed, tag))
			b, _ := json.MarshalIndent(rf, "", " ")
			_ = os.MkdirAll(replayDir, 0o755)
			_ = os.WriteFile(path, b, 0o644)
		}
		rep.Found = append(rep.Found, Found{Violation: *r2.Violation, Seed: seed, Replay: path})
		nv := 0
		for _, f := range rep.Found {
			if !f.Known {
				nv++
			}
		}
		if nv >= maxFound {
			stop = true
		}
		return res.EnumPoints, 0
	}
	for i := 0; i < count && !stop; i++ {
		if time.Since(start) > wall {
			break
		}
		seed := base*1_000_000 + first + uint64(i)*stride
		rep.LastSeed = seed
		if out != "" {
			// a run that kills the process (runtime fatal error) leaves its seed behind
			_ = os.WriteFile(out+".progress", []byte(strconv.FormatUint(seed, 10)), 0o644)
		}
		if !enum {
			if _, code := oneRun(seed, choice.NewSeeded(seed), i, ""); code != 0 {
				return code
			}
			continue
		}
		// fault-point enumeration: the base history first (fault point "none"), then the same
		// seeded history once per fault point it passed, each forced by the first decision
		n, code := oneRun(seed, choice.NewSeededPrefix(seed, []int{EnumNone}), i, "-base")
		if code != 0 {
			return code
		}
		rep.Stats["enum.histories"]++
		rep.Stats["enum.fault-points"] += int64(n)
		for j := 0; j < n && !stop; j++ {
			if _, code := oneRun(seed, choice.NewSeededPrefix(seed, []int{j}), i, fmt.Sprintf("-p%d", j)); code != 0 {
				return code
			}
		}
		if !stop {
			rep.Stats["enum.histories-fully-enumerated"]++
		}
		// (VERIF_COUNT counts histories in this mode)
	}
	rep.WallS = time.Since(start).Seconds()
	if out != "" {
		_ = os.Remove(out + ".progress")
	}
	return 0
}

// Shrink minimises a choice sequence while same() keeps holding.
func Shrink(ks []int, same func([]int) bool, budget time.Duration) ([]int, string) {
	start := time.Now()
	cur := append([]int(nil), ks...)
	tries, kept := 0, 0
	try := func(cand []int) bool {
		tries++
		if same(cand) {
			cur = cand
			kept++
			return true
		}
		return false
	}
	// trailing part first: truncate
	for n := len(cur) / 2; n >= 1; n /= 2 {
		for len(cur) > n && time.Since(start) < budget {
			if !try(append([]int(nil), cur[:len(cur)-n]...)) {
				break
			}
		}
	}
	for pass := 0; pass < 6 && time.Since(start) < budget; pass++ {
		before := kept
		for _, blk := range []int{64, 16, 4, 1} {
			for i := 0; i+blk <= len(cur) && time.Since(start) < budget; {
				cand := append(append([]int(nil), cur[:i]...), cur[i+blk:]...)
				if !try(cand) {
					i += blk
				}
			}
		}
		// zero / reduce individual draws
		for i := 0; i < len(cur) && time.Since(start) < budget; i++ {
			if cur[i] == 0 {
				continue
			}
			cand := append([]int(nil), cur...)
			cand[i] = 0
			if try(cand) {
				continue
			}
			if cur[i] > 1 {
				cand = append([]int(nil), cur...)
				cand[i] = cur[i] / 2
				if !try(cand) && cur[i] > 2 {
					cand = append([]int(nil), cur...)
					cand[i] = cur[i] - 1
					try(cand)
				}
			}
		}
		if kept == before {
			break
		}
	}
	// drop trailing zeros (replay returns 0 for missing draws)
	for len(cur) > 0 && cur[len(cur)-1] == 0 {
		cur = cur[:len(cur)-1]
	}
	return cur, fmt.Sprintf("%d -> %d draws, %d candidate runs, %d edits kept, %.1fs", len(ks), len(cur), tries, kept, time.Since(start).Seconds())
}
