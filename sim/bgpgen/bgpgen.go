// Package bgpgen generates BGP session parameters and advertisement sets (inputs of the FRR and
// FRR-K8s session managers) together with their bgpmodel counterparts.
package bgpgen

import (
	"fmt"
	"net"
	"time"

	"go.universe.tf/metallb/internal/bgp"
	"go.universe.tf/metallb/internal/bgp/community"
	"go.universe.tf/metallb/internal/verifsim/bgpmodel"
	v1 "k8s.io/api/core/v1"
)

var PrefixUniverse = []string{"172.16.1.0/24", "172.16.1.10/32", "172.16.2.0/24", "10.10.0.0/16", "fc00:f853:ccd:e793::/64", "fc00:f853:ccd:e793::10/128", "2001:db8::/48"}
var CommUniverse = []string{"1111:2222", "3333:4444", "65000:1"}
var LargeUniverse = []string{"1:2:3", "4000000000:5:6"}

type Picker func(n int, label string) int

// Advs draws an advertisement set.  allowConflict lets one prefix appear with two local
// preferences (one time in ten).
func Advs(pick Picker, allowConflict bool) ([]bgpmodel.Adv, []*bgp.Advertisement) {
	n := pick(5, "nadvs")
	var ms []bgpmodel.Adv
	var as []*bgp.Advertisement
	for i := 0; i < n; i++ {
		p := PrefixUniverse[pick(len(PrefixUniverse), "prefix")]
		lp := []uint32{0, 100, 200}[pick(3, "localpref")]
		if !allowConflict || pick(10, "conflicting localpref") != 0 {
			for _, x := range ms {
				if _, ipn, _ := net.ParseCIDR(p); x.Prefix == ipn.String() {
					lp = x.LocalPref
				}
			}
		}
		var comms, large []string
		for _, c := range CommUniverse {
			if pick(3, "community") == 0 {
				comms = append(comms, c)
			}
		}
		for _, c := range LargeUniverse {
			if pick(4, "large community") == 0 {
				large = append(large, c)
			}
		}
		_, ipn, _ := net.ParseCIDR(p)
		m := bgpmodel.Adv{Prefix: ipn.String(), LocalPref: lp, Comms: comms, Large: large}
		ms = append(ms, m)
		as = append(as, ToAdvertisement(m))
	}
	return ms, as
}

// ToAdvertisement builds MetalLB's advertisement for a model advertisement.
func ToAdvertisement(a bgpmodel.Adv) *bgp.Advertisement {
	_, ipn, _ := net.ParseCIDR(a.Prefix)
	var cs []community.BGPCommunity
	for _, c := range a.Comms {
		x, err := community.New(c)
		if err != nil {
			panic(err)
		}
		cs = append(cs, x)
	}
	for _, c := range a.Large {
		x, err := community.New("large:" + c)
		if err != nil {
			panic(err)
		}
		cs = append(cs, x)
	}
	return &bgp.Advertisement{Prefix: ipn, LocalPref: a.LocalPref, Communities: cs}
}

func secs(d *time.Duration) int64 {
	if d == nil {
		return -1
	}
	return int64(*d / time.Second)
}

// Session draws session parameters; (slot, sub) make the peer unique.  withSecret allows a
// secret reference instead of a password (FRR-K8s mode).
func Session(pick Picker, slot, sub int, withSecret bool) (bgp.SessionParameters, *bgpmodel.Session) {
	routers := []struct {
		asn uint32
		vrf string
		id  string
	}{{64512, "", "10.1.1.254"}, {64512, "red", ""}, {64513, "", ""}}
	r := routers[pick(len(routers), "router")]
	p := bgp.SessionParameters{MyASN: r.asn, VRFName: r.vrf, CurrentNode: "node1", SessionName: fmt.Sprintf("s%d-%d", slot, sub)}
	if r.id != "" {
		p.RouterID = net.ParseIP(r.id)
	}
	switch pick(3, "peer kind") {
	case 0:
		p.PeerAddress = fmt.Sprintf("10.2.%d.%d", slot+1, 10+sub)
	case 1:
		p.PeerAddress = fmt.Sprintf("fc00:%d::%d", slot+1, 10+sub)
	case 2:
		p.PeerInterface = fmt.Sprintf("eth%d%d", slot+1, sub)
	}
	if pick(2, "ebgp") == 0 {
		p.PeerASN = r.asn
	} else {
		p.PeerASN = 64600 + uint32(pick(3, "peer asn"))
	}
	if pick(6, "dynamic asn") == 0 {
		p.PeerASN = 0
		p.DynamicASN = []string{"internal", "external"}[pick(2, "dynamic")]
	}
	if pick(3, "port") == 0 {
		p.PeerPort = 1179
	}
	if pick(2, "timers") == 0 {
		h, k := 90*time.Second, 30*time.Second
		p.HoldTime, p.KeepAliveTime = &h, &k
	}
	if pick(4, "connect time") == 0 {
		c := 10 * time.Second
		p.ConnectTime = &c
	}
	secret := ""
	switch pick(4, "password") {
	case 0:
		p.Password = "secret" + fmt.Sprint(slot)
	case 1:
		if withSecret {
			p.PasswordRef = v1.SecretReference{Name: fmt.Sprintf("bgp-secret-%d", slot), Namespace: "metallb-system"}
			secret = "metallb-system/" + p.PasswordRef.Name
		}
	}
	if pick(4, "source") == 0 && p.PeerInterface == "" {
		p.SourceAddress = net.ParseIP("10.1.1.254")
	}
	p.EBGPMultiHop = pick(4, "multihop") == 0
	p.GracefulRestart = pick(5, "graceful") == 0
	if pick(4, "bfd") == 0 {
		p.BFDProfile = "fast"
	}
	if p.PeerInterface == "" && pick(5, "disable mp") == 0 {
		p.DisableMP = true
	}
	ms := &bgpmodel.Session{MyASN: p.MyASN, RouterID: r.id, VRF: p.VRFName, PeerASN: p.PeerASN, DynamicASN: p.DynamicASN, PeerAddr: p.PeerAddress, PeerIface: p.PeerInterface,
		Port: p.PeerPort, HoldTime: secs(p.HoldTime), KeepAlive: secs(p.KeepAliveTime), Password: p.Password, PasswordSecret: secret, EBGPMultiHop: p.EBGPMultiHop, BFDProfile: p.BFDProfile,
		GracefulRestart: p.GracefulRestart, DisableMP: p.DisableMP}
	if p.ConnectTime != nil {
		ms.ConnectTime = int64(*p.ConnectTime / time.Second)
	}
	if p.SourceAddress != nil {
		ms.SrcAddr = p.SourceAddress.String()
	}
	return p, ms
}
