// Package choice is the single source of nondeterminism of a simulated run.
package choice

import (
	"fmt"
	"math/rand/v2"
)

// Draw is one recorded decision.
type Draw struct {
	L string `json:"l"`
	N int    `json:"n"`
	K int    `json:"k"`
}

// Chooser hands out decisions, either from a PRNG (exploration) or from a recorded list (replay).
type Chooser struct {
	rng    *rand.Rand
	replay []int
	pos    int
	Trace  []Draw
	// Strict replay: labels to compare against (optional).
	labels []string
	// Diverged is set when a strict replay saw a different label or bound.
	Diverged string
	limit    int
	prefix   []int
}

// ErrBudget is panicked when a run draws more than its budget (runaway run).
type ErrBudget struct{}

func NewSeeded(seed uint64) *Chooser {
	return &Chooser{rng: rand.New(rand.NewPCG(seed, 0x9e3779b97f4a7c15)), limit: 1 << 20}
}

// NewSeededPrefix is NewSeeded whose first draws are forced (fault-point enumeration: the same
// seeded history with the enumerated fault point as its first decision).
func NewSeededPrefix(seed uint64, prefix []int) *Chooser {
	c := NewSeeded(seed)
	c.prefix = prefix
	return c
}

func NewReplay(ks []int) *Chooser { return &Chooser{replay: ks, limit: 1 << 20} }

func NewStrictReplay(tr []Draw) *Chooser {
	c := &Chooser{limit: 1 << 20}
	for _, d := range tr {
		c.replay = append(c.replay, d.K)
		c.labels = append(c.labels, d.L)
	}
	return c
}

// Intn returns a decision in [0,n). n<=1 consumes nothing and returns 0.
func (c *Chooser) Intn(n int, label string) int {
	if n <= 1 {
		return 0
	}
	if len(c.Trace) >= c.limit {
		panic(ErrBudget{})
	}
	var k int
	if c.rng != nil {
		k = c.rng.IntN(n) // always drawn, so that the stream after the prefix does not depend on it
		if len(c.Trace) < len(c.prefix) {
			k = c.prefix[len(c.Trace)] % n
		}
	} else {
		if c.pos < len(c.replay) {
			k = c.replay[c.pos]
			if c.labels != nil && c.Diverged == "" && c.labels[c.pos] != label {
				c.Diverged = fmt.Sprintf("draw %d: recorded %q, run asked %q", c.pos, c.labels[c.pos], label)
			}
			if k < 0 {
				k = 0
			}
			k %= n
		}
		c.pos++
	}
	c.Trace = append(c.Trace, Draw{label, n, k})
	return k
}

// Bool is true with probability num/den.
func (c *Chooser) Bool(num, den int, label string) bool { return c.Intn(den, label) >= den-num }

// Perm returns a permutation of 0..n-1 (identity when all draws are 0).
func (c *Chooser) Perm(n int, label string) []int {
	p := make([]int, n)
	for i := range p {
		p[i] = i
	}
	for i := 0; i < n-1; i++ {
		j := i + c.Intn(n-i, label)
		// rotate j to position i keeping the relative order of the rest (identity when j==i)
		v := p[j]
		copy(p[i+1:j+1], p[i:j])
		p[i] = v
	}
	return p
}

// Ks returns the decision values of the trace.
func (c *Chooser) Ks() []int {
	out := make([]int, len(c.Trace))
	for i, d := range c.Trace {
		out[i] = d.K
	}
	return out
}
