// Package simnet is the simulated TCP of the goroutine engine: ordered byte streams with
// arbitrary fragmentation of reads, a bounded buffer (writers can block), deadlines on the
// fake clock, resets and half-closes, and a Dial that the native BGP session's dialMD5 call is
// substituted with.  Every operation is a park point of the scheduler.
package simnet

import (
	"context"
	"errors"
	"fmt"
	"io"
	"net"
	"os"
	"time"

	"go.universe.tf/metallb/internal/verifsim/simrt"
)

// half is one direction of a connection.
type half struct {
	buf     []byte
	closedW bool // writer closed: reader sees EOF after draining
	reset   bool // connection reset: both sides fail
	limit   int
	Written int // total bytes ever written into this half
}

// Conn is one endpoint.
type Conn struct {
	name       string
	rd, wr     *half
	closed     bool
	rdeadline  time.Time
	wdeadline  time.Time
	local      net.Addr
	remote     net.Addr
	Fragment   func(avail int) int // how many of the available bytes one Read returns (nil: all)
	OnWrite    func(p []byte)      // observer (wire tap), called with every successful Write
	BytesRead  int
	ReadCalls  int
	WriteCalls int
	peer       *Conn
}

// Pipe creates a connected pair; bufLimit bounds each direction's in-flight bytes.
func Pipe(name string, bufLimit int, localIP net.IP) (a, b *Conn) {
	ab := &half{limit: bufLimit}
	ba := &half{limit: bufLimit}
	la := &net.TCPAddr{IP: localIP, Port: 40000}
	ra := &net.TCPAddr{IP: net.IPv4(10, 9, 0, 1), Port: 179}
	a = &Conn{name: name + "/client", rd: ba, wr: ab, local: la, remote: ra}
	b = &Conn{name: name + "/server", rd: ab, wr: ba, local: ra, remote: la}
	a.peer, b.peer = b, a
	return
}

type timeoutErr struct{}

func (timeoutErr) Error() string   { return "i/o timeout" }
func (timeoutErr) Timeout() bool   { return true }
func (timeoutErr) Temporary() bool { return true }

var errTimeout error = &net.OpError{Op: "io", Net: "sim", Err: os.ErrDeadlineExceeded}

func (c *Conn) Read(p []byte) (int, error) {
	c.ReadCalls++
	if len(p) == 0 {
		return 0, nil
	}
	if s := simrt.Active; s != nil {
		s.Park(&simrt.Op{Kind: "read", Obj: c.name, Deadline: c.rdeadline, Enabled: func() bool {
			return len(c.rd.buf) > 0 || c.rd.closedW || c.rd.reset || c.closed
		}})
	}
	switch {
	case c.closed:
		return 0, net.ErrClosed
	case c.rd.reset:
		return 0, errors.New("connection reset by peer")
	case len(c.rd.buf) > 0:
		n := len(c.rd.buf)
		if n > len(p) {
			n = len(p)
		}
		if c.Fragment != nil {
			if k := c.Fragment(n); k >= 1 && k < n {
				n = k
			}
		}
		copy(p, c.rd.buf[:n])
		c.rd.buf = c.rd.buf[n:]
		c.BytesRead += n
		return n, nil
	case c.rd.closedW:
		return 0, io.EOF
	}
	if !c.rdeadline.IsZero() && !time.Now().Before(c.rdeadline) {
		return 0, errTimeout
	}
	return 0, io.EOF
}

func (c *Conn) Write(p []byte) (int, error) {
	c.WriteCalls++
	if s := simrt.Active; s != nil {
		s.Park(&simrt.Op{Kind: "write", Obj: fmt.Sprintf("%s %dB", c.name, len(p)), Deadline: c.wdeadline, Enabled: func() bool {
			return c.closed || c.wr.reset || c.wr.closedW || len(c.wr.buf)+len(p) <= c.wr.limit || len(c.wr.buf) == 0
		}})
	}
	switch {
	case c.closed:
		return 0, net.ErrClosed
	case c.wr.reset:
		return 0, errors.New("connection reset by peer")
	case c.wr.closedW:
		return 0, errors.New("broken pipe")
	}
	if len(c.wr.buf)+len(p) > c.wr.limit && len(c.wr.buf) != 0 {
		if !c.wdeadline.IsZero() && !time.Now().Before(c.wdeadline) {
			return 0, errTimeout
		}
	}
	c.wr.buf = append(c.wr.buf, p...)
	c.wr.Written += len(p)
	if c.OnWrite != nil {
		c.OnWrite(p)
	}
	return len(p), nil
}

// Close closes this endpoint: the peer reads EOF after draining and its writes fail.
func (c *Conn) Close() error {
	if c.closed {
		return net.ErrClosed
	}
	c.closed = true
	c.wr.closedW = true
	c.rd.closedW = true
	return nil
}

// Reset aborts the connection in both directions (in-flight data is lost).
func (c *Conn) Reset() {
	c.wr.reset, c.rd.reset = true, true
	c.wr.buf, c.rd.buf = nil, nil
}

// Pending is the number of bytes written by this endpoint and not yet read by the peer.
func (c *Conn) Pending() int { return len(c.wr.buf) }

// Written is the total number of bytes this endpoint has written.
func (c *Conn) Written() int { return c.wr.Written }

func (c *Conn) Closed() bool { return c.closed }

func (c *Conn) LocalAddr() net.Addr  { return c.local }
func (c *Conn) RemoteAddr() net.Addr { return c.remote }
func (c *Conn) SetDeadline(t time.Time) error {
	c.rdeadline, c.wdeadline = t, t
	return nil
}
func (c *Conn) SetReadDeadline(t time.Time) error  { c.rdeadline = t; return nil }
func (c *Conn) SetWriteDeadline(t time.Time) error { c.wdeadline = t; return nil }

// Dialer is consulted by Dial; the harness installs one per run.
var Dialer func(ctx context.Context, addr string, srcAddr net.IP, password string) (net.Conn, error)

// Dials counts Dial calls (C17: silence after Close).
var Dials int

// Dial has the signature of native.dialMD5 (substituted by simbuild R4).
func Dial(ctx context.Context, addr string, srcAddr net.IP, password string) (net.Conn, error) {
	Dials++
	if Dialer == nil {
		return nil, errors.New("simnet: no dialer installed")
	}
	return Dialer(ctx, addr, srcAddr, password)
}
