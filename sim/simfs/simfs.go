// Package simfs is the simulated file system of the goroutine engine: the two files of the FRR
// delivery pipeline (configuration file, reloader status file).  Every call is a park point;
// write faults (failed write, torn write) are injected by a hook.
package simfs

import (
	"io/fs"
	"os"

	"go.universe.tf/metallb/internal/verifsim/simrt"
)

// Files is the content of the simulated disk.
var Files = map[string][]byte{}

// WriteFault decides the fate of a write: "" ok, "fail" nothing written, "torn" a prefix written
// and an error returned.
var WriteFault func(name string, data []byte) string

// Writes counts WriteFile calls per file.
var Writes = map[string]int{}

func Reset() {
	Files = map[string][]byte{}
	Writes = map[string]int{}
	WriteFault = nil
}

func park(kind, name string) {
	if s := simrt.Active; s != nil {
		s.Park(&simrt.Op{Kind: kind, Obj: name, Enabled: func() bool { return true }})
	}
}

// WriteFile has the signature of os.WriteFile.
func WriteFile(name string, data []byte, perm os.FileMode) error {
	park("writefile", name)
	Writes[name]++
	if WriteFault != nil {
		switch WriteFault(name, data) {
		case "fail":
			return &fs.PathError{Op: "write", Path: name, Err: os.ErrPermission}
		case "torn":
			Files[name] = append([]byte{}, data[:len(data)/2]...)
			return &fs.PathError{Op: "write", Path: name, Err: os.ErrDeadlineExceeded}
		}
	}
	Files[name] = append([]byte{}, data...)
	return nil
}

// ReadFile has the signature of os.ReadFile.
func ReadFile(name string) ([]byte, error) {
	park("readfile", name)
	b, ok := Files[name]
	if !ok {
		return nil, &fs.PathError{Op: "open", Path: name, Err: os.ErrNotExist}
	}
	return append([]byte{}, b...), nil
}
