package simrt

// The goroutine engine (DESIGN.md §3.3): real goroutines, exactly one released at a time.
// Every operation on shared state that matters (scheduler-owned locks and condition variables,
// simulated connections/files, stub calls, goroutine start, explicit yields) is a park point:
// the goroutine registers an Op and blocks until the scheduler releases it.  The scheduler runs
// on the root goroutine of a testing/synctest bubble: it waits until every other goroutine is
// durably blocked (synctest.Wait), then draws which enabled parked task to release, or lets the
// fake clock advance to the next timer.  Native channel operations, timers and time.Sleep are
// left to Go inside the bubble; select statements are rewritten to Select so that the choice
// among several ready cases is the simulator's.

import (
	"bytes"
	"fmt"
	"reflect"
	"runtime"
	"sort"
	"strconv"
	"strings"
	"sync"
	"testing/synctest"
	"time"
)

// Op is one parked operation.
type Op struct {
	Kind      string
	Obj       string
	Enabled   func() bool // evaluated by the scheduler while everything is quiescent
	OnRelease func()      // state change performed by the scheduler on behalf of the task
	Deadline  time.Time   // zero: none; the op becomes enabled when the fake clock reaches it
	task      *Task
	wake      chan struct{}
	seq       uint64
}

// Task is a goroutine known to the scheduler.
type Task struct {
	Name   string
	nchild int
	gid    int64
	Daemon bool // environment task: does not keep the run alive
}

// Sched is the scheduler of one simulated run.
type Sched struct {
	mu      sync.Mutex // real mutex: protects the scheduler's own tables
	tasks   []*Task    // (no Go map here: the runtime's map functions report to the race detector whoever calls them)
	parked  []*Op
	notify  chan struct{}
	dead    bool
	seq     uint64
	Choose  func(n int, label string) int
	Log     []string
	Verbose bool
	Steps   int
	Hash    uint64
	root    *Task
	nobj    [8]int
	// Stats
	Released map[string]int
	// Panics of task goroutines (a crash of the system under test, or of the harness)
	Panics []string
	// StallP: 1/StallP of the scheduling decisions let time pass although a task is enabled
	StallP int
}

// Active is the scheduler of the run in progress (nil: every primitive is native).
var Active *Sched

// SelectOrder, when non-nil, chooses the polling start of a rewritten select with n live cases.
var SelectOrder func(n int) int

//go:norace
func goid() int64 {
	var buf [64]byte
	n := runtime.Stack(buf[:], false)
	b := buf[:n]
	b = b[len("goroutine "):]
	i := bytes.IndexByte(b, ' ')
	id, _ := strconv.ParseInt(string(b[:i]), 10, 64)
	return id
}

// NewSched creates a scheduler; the calling goroutine becomes the root task.
//
//go:norace
func NewSched(choose func(n int, label string) int) *Sched {
	s := &Sched{notify: make(chan struct{}, 1), Choose: choose, Released: map[string]int{}}
	s.root = &Task{Name: "root", gid: goid()}
	s.tasks = append(s.tasks, s.root)
	return s
}

// ObjName hands out deterministic object names ("mutex#3").
//
//go:norace
func (s *Sched) ObjName(kind string) string {
	raceDisable()
	defer raceEnable()
	s.mu.Lock()
	defer s.mu.Unlock()
	i := 0
	switch kind {
	case "mutex":
		i = 1
	case "rwmutex":
		i = 2
	case "cond":
		i = 3
	}
	s.nobj[i]++
	return kind + "#" + strconv.Itoa(s.nobj[i])
}

//go:norace
func (s *Sched) findTask(id int64) *Task {
	for _, t := range s.tasks {
		if t.gid == id {
			return t
		}
	}
	return nil
}

//go:norace
func (s *Sched) dropTask(id int64) {
	for i, t := range s.tasks {
		if t.gid == id {
			// element moves by hand: the runtime's slicecopy reports to the race detector
			for k := i; k+1 < len(s.tasks); k++ {
				s.tasks[k] = s.tasks[k+1]
			}
			s.tasks = s.tasks[:len(s.tasks)-1]
			return
		}
	}
}

//go:norace
func (s *Sched) logf(parts ...string) {
	// no fmt here: fmt recycles buffers through a sync.Pool, whose hand-over the race detector cannot
	// see inside the scheduler's RaceDisable windows
	line := strings.Join(parts, "")
	// FNV-1a over the event log
	h := s.Hash
	if h == 0 {
		h = 14695981039346656037
	}
	for i := 0; i < len(line); i++ {
		h ^= uint64(line[i])
		h *= 1099511628211
	}
	s.Hash = h
	if s.Verbose {
		s.Log = append(s.Log, "["+time.Since(epoch).Round(time.Microsecond).String()+"] "+line)
	}
}

var epoch time.Time

// Event lets harness code add a line to the event log (from the running task).
//
//go:norace
func (s *Sched) Event(format string, a ...any) {
	line := fmt.Sprintf(format, a...) // formatted by the calling task, outside any RaceDisable window
	raceDisable()
	defer raceEnable()
	s.mu.Lock()
	defer s.mu.Unlock()
	s.logf(line)
}

// Current returns the task of the calling goroutine (nil if unknown).
//
//go:norace
func (s *Sched) Current() *Task {
	raceDisable()
	defer raceEnable()
	id := goid()
	s.mu.Lock()
	defer s.mu.Unlock()
	return s.findTask(id)
}

type dieSentinel struct{}

func panicString(r any) string {
	switch x := r.(type) {
	case string:
		return x
	case error:
		return x.Error()
	}
	return fmt.Sprint(r)
}

// Park blocks the calling goroutine until the scheduler releases op.
//
//go:norace
func (s *Sched) Park(op *Op) {
	raceDisable() // the scheduler's own hand-offs must not create happens-before edges between tasks
	defer raceEnable()
	id := goid()
	s.mu.Lock()
	t := s.findTask(id)
	if t == nil {
		// a goroutine the scheduler has never seen (started natively): adopt it
		t = &Task{Name: "adopted" + strconv.Itoa(len(s.tasks)), gid: id}
		s.tasks = append(s.tasks, t)
	}
	if s.dead {
		s.mu.Unlock()
		runtime.Goexit()
	}
	op.task = t
	op.wake = make(chan struct{})
	s.seq++
	op.seq = s.seq
	s.parked = append(s.parked, op)
	s.mu.Unlock()
	select {
	case s.notify <- struct{}{}:
	default:
	}
	<-op.wake
	if s.dead {
		runtime.Goexit()
	}
}

// Yield is an explicit scheduling point.
//
//go:norace
func Yield(label string) {
	if s := Active; s != nil {
		s.Park(&Op{Kind: "yield", Obj: label, Enabled: alwaysEnabled})
	}
}

// Go starts f as a task of the active simulation (native goroutine otherwise).
//
//go:norace
func Go(f func()) {
	s := Active
	if s == nil {
		go f()
		return
	}
	s.GoNamed("", false, f)
}

// GoNamed starts a task with an explicit name suffix.
//
//go:norace
func (s *Sched) GoNamed(name string, daemon bool, f func()) {
	parent := s.Current()
	if parent == nil {
		parent = s.root
	}
	s.mu.Lock()
	parent.nchild++
	n := parent.Name + "." + strconv.Itoa(parent.nchild)
	if name != "" {
		n = name
	}
	s.mu.Unlock()
	t := &Task{Name: n, Daemon: daemon}
	go s.taskMain(t, f)
}

//go:norace
func (s *Sched) taskMain(t *Task, f func()) {
	t.gid = goid()
	raceDisable()
	s.mu.Lock()
	s.tasks = append(s.tasks, t)
	s.mu.Unlock()
	raceEnable()
	defer s.taskExit(t)
	defer s.taskRecover(t)
	s.Park(&Op{Kind: "start", Obj: t.Name, Enabled: alwaysEnabled})
	f()
}

//go:norace
func alwaysEnabled() bool { return true }

//go:norace
func (s *Sched) taskExit(t *Task) {
	raceDisable()
	s.mu.Lock()
	s.dropTask(t.gid)
	s.mu.Unlock()
	raceEnable()
}

//go:norace
func (s *Sched) taskRecover(t *Task) {
	if r := recover(); r != nil {
		buf := make([]byte, 8192)
		buf = buf[:runtime.Stack(buf, false)]
		msg := "task " + t.Name + " panicked: " + panicString(r) + "\n" + string(buf)
		raceDisable()
		s.mu.Lock()
		s.Panics = append(s.Panics, msg)
		s.mu.Unlock()
		raceEnable()
	}
}

// Run drives the simulation until done() is true while everything is quiescent, or maxSteps
// scheduling decisions, or until the fake clock reaches limit.  It returns "" or a reason
// ("deadlock: ...", "step budget", "time limit").
//
//go:norace
func (s *Sched) Run(done func() bool, maxSteps int, limit time.Duration) string {
	raceDisable()
	defer raceEnable()
	for {
		synctest.Wait()
		if len(s.Panics) > 0 {
			return "panic: " + s.Panics[0]
		}
		if done() {
			return ""
		}
		if s.Steps >= maxSteps {
			return "step budget"
		}
		if time.Since(epoch) > limit {
			return "time limit"
		}
		s.mu.Lock()
		now := time.Now()
		var enabled []*Op
		var nextDeadline time.Time
		for _, op := range s.parked {
			if op.Enabled() || (!op.Deadline.IsZero() && !now.Before(op.Deadline)) {
				enabled = append(enabled, op)
			} else if !op.Deadline.IsZero() && (nextDeadline.IsZero() || op.Deadline.Before(nextDeadline)) {
				nextDeadline = op.Deadline
			}
		}
		sort.Sort(opsByName(enabled))
		nparked := len(s.parked)
		s.mu.Unlock()
		stall := false
		if len(enabled) > 0 && s.StallP > 0 && s.Choose(s.StallP, "let time pass?") == s.StallP-1 {
			stall = true
		}
		if len(enabled) > 0 && !stall {
			i := 0
			if len(enabled) > 1 {
				i = s.Choose(len(enabled), "run which task")
			}
			op := enabled[i]
			s.mu.Lock()
			for j, p := range s.parked {
				if p == op {
					for k := j; k+1 < len(s.parked); k++ {
						s.parked[k] = s.parked[k+1]
					}
					s.parked = s.parked[:len(s.parked)-1]
					break
				}
			}
			s.Steps++
			s.Released[op.Kind]++
			s.logf(op.task.Name, ": ", op.Kind, " ", op.Obj)
			s.mu.Unlock()
			if op.OnRelease != nil {
				op.OnRelease()
			}
			close(op.wake)
			continue
		}
		// nothing to release: let the fake clock advance to the next timer (of any goroutine in
		// the bubble) or to the next deadline of a parked operation
		d := 24 * time.Hour
		if !nextDeadline.IsZero() {
			d = time.Until(nextDeadline)
		}
		if stall {
			d = time.Duration(1+s.Choose(20, "stall ms")) * time.Millisecond
		}
		before := time.Now()
		tm := time.NewTimer(d)
		select {
		case <-s.notify:
			tm.Stop()
		case <-tm.C:
			if !stall && nextDeadline.IsZero() {
				// a whole day passed without any goroutine reaching a park point
				s.mu.Lock()
				n2 := len(s.parked)
				s.mu.Unlock()
				if n2 == nparked {
					if done() {
						return ""
					}
					return "deadlock: " + s.describeParked()
				}
			}
		}
		if el := time.Since(before); el > 0 {
			s.mu.Lock()
			s.logf("clock +", el.String())
			s.mu.Unlock()
		}
	}
}

type opsByName []*Op

//go:norace
func (o opsByName) Len() int { return len(o) }

//go:norace
func (o opsByName) Swap(i, j int) { o[i], o[j] = o[j], o[i] }

//go:norace
func (o opsByName) Less(i, j int) bool {
	if o[i].task.Name != o[j].task.Name {
		return o[i].task.Name < o[j].task.Name
	}
	return o[i].seq < o[j].seq
}

//go:norace
func (s *Sched) describeParked() string {
	s.mu.Lock()
	defer s.mu.Unlock()
	var out []string
	for _, op := range s.parked {
		out = append(out, op.task.Name+" waits for "+op.Kind+" "+op.Obj)
	}
	sort.Strings(out)
	return "[" + strings.Join(out, "; ") + "]"
}

// Kill ends the run: every parked goroutine (and every goroutine that reaches a park point
// later) exits.
//
//go:norace
func (s *Sched) Kill() {
	s.mu.Lock()
	s.dead = true
	ps := s.parked
	s.parked = nil
	s.mu.Unlock()
	for _, op := range ps {
		close(op.wake)
	}
}

// Dead reports whether the run has been ended.
//
//go:norace
func (s *Sched) Dead() bool {
	s.mu.Lock()
	defer s.mu.Unlock()
	return s.dead
}

// SetEpoch records the fake time origin of the run (call inside the bubble).
//
//go:norace
func SetEpoch() { epoch = time.Now() }

// Now returns the simulated time since the start of the run.
//
//go:norace
func Now() time.Duration { return time.Since(epoch) }

// ---- rewritten select statements ----

// SelCase is one case of a rewritten select.
type SelCase struct {
	Dir int // 0 receive, 1 send
	Ch  any
	Val any
}

// Select implements a select statement: it returns the index of the chosen case (-1: default),
// the received value and the ok flag.  Among several ready cases the simulator chooses.
func Select(cases []SelCase, hasDefault bool) (int, any, bool) {
	n := len(cases)
	rc := make([]reflect.SelectCase, n)
	live := 0
	for i, c := range cases {
		v := reflect.ValueOf(c.Ch)
		if c.Dir == 0 {
			rc[i] = reflect.SelectCase{Dir: reflect.SelectRecv, Chan: v}
		} else {
			rc[i] = reflect.SelectCase{Dir: reflect.SelectSend, Chan: v, Send: reflect.ValueOf(c.Val)}
			if c.Val == nil {
				rc[i].Send = reflect.Zero(v.Type().Elem())
			}
		}
		if v.IsValid() && !v.IsNil() {
			live++
		}
	}
	start := 0
	if Active != nil && SelectOrder != nil && live > 1 {
		start = SelectOrder(n)
	}
	// non-blocking poll in the chosen order
	for k := 0; k < n; k++ {
		i := (start + k) % n
		if !rc[i].Chan.IsValid() || rc[i].Chan.IsNil() {
			continue
		}
		chosen, recv, ok := reflect.Select([]reflect.SelectCase{rc[i], {Dir: reflect.SelectDefault}})
		if chosen == 0 {
			return i, val(recv), ok
		}
	}
	if hasDefault {
		return -1, nil, false
	}
	for i := range rc {
		if !rc[i].Chan.IsValid() {
			rc[i].Chan = reflect.Zero(reflect.TypeOf((chan struct{})(nil))) // nil channel: never ready
			rc[i].Dir = reflect.SelectRecv
		}
	}
	chosen, recv, ok := reflect.Select(rc)
	// this goroutine was blocked natively and has been woken by a timer or another goroutine:
	// it re-enters the simulation through the scheduler before it does anything else
	resume("select")
	return chosen, val(recv), ok
}

//go:norace
func resume(what string) {
	if s := Active; s != nil {
		s.Park(&Op{Kind: "resume", Obj: what, Enabled: alwaysEnabled})
	}
}

// OnSend, when non-nil, observes every rewritten channel send: before (done=false) and after
// (done=true) the value has been handed over.
var OnSend func(v any, done bool)

// Send is a rewritten channel send statement (outside select).
func Send[T any](ch chan<- T, v T) {
	if Active == nil {
		ch <- v
		return
	}
	if OnSend != nil {
		OnSend(v, false)
	}
	select {
	case ch <- v:
		if OnSend != nil {
			OnSend(v, true)
		}
		return
	default:
	}
	ch <- v
	resume("send")
	if OnSend != nil {
		OnSend(v, true)
	}
}

// Sleep is time.Sleep followed by re-entering the simulation through the scheduler.
func Sleep(d time.Duration) {
	time.Sleep(d)
	resume("sleep")
}

func val(v reflect.Value) any {
	if !v.IsValid() {
		return nil
	}
	return v.Interface()
}

// RecvAs converts the value a rewritten select received from ch.
func RecvAs[T any](ch <-chan T, v any) T {
	if v == nil {
		var z T
		return z
	}
	return v.(T)
}
