//go:build !race

package simrt

func raceDisable() {}
func raceEnable()  {}

// RaceErrors is the number of data races reported so far in this process (0 without -race).
func RaceErrors() int { return 0 }
