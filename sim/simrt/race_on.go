//go:build race

package simrt

import "runtime"

func raceDisable() { runtime.RaceDisable() }
func raceEnable()  { runtime.RaceEnable() }

// RaceErrors is the number of data races reported so far in this process.
func RaceErrors() int { return runtime.RaceErrors() }
