// Package simrt is the runtime seam that simbuild-rewritten MetalLB sources call into.
// With no simulation active every primitive is behaviour-preserving and deterministic
// (map ranges iterate in sorted key order).
package simrt

import (
	"fmt"
	"sort"
)

// MapOrder, when non-nil, is asked for the iteration order of a map range with n>1 keys.
// It must return a permutation of 0..n-1 (indices into the canonically sorted key list).
var MapOrder func(n int) []int

// MapRanges counts rewritten map ranges executed (reach measure).
var MapRanges uint64

//go:norace
func bumpMapRanges() { MapRanges++ }

func keyLess(a, b any) bool {
	switch x := a.(type) {
	case string:
		return x < b.(string)
	case int:
		return x < b.(int)
	case int32:
		return x < b.(int32)
	case int64:
		return x < b.(int64)
	case uint16:
		return x < b.(uint16)
	case uint32:
		return x < b.(uint32)
	case uint64:
		return x < b.(uint64)
	case fmt.Stringer:
		return x.String() < b.(fmt.Stringer).String()
	}
	return fmt.Sprintf("%#v", a) < fmt.Sprintf("%#v", b)
}

// MapKeys returns the keys of m in the order the simulator chose (sorted when none is active).
func MapKeys[M ~map[K]V, K comparable, V any](m M) []K {
	bumpMapRanges()
	keys := make([]K, 0, len(m))
	for k := range m {
		keys = append(keys, k)
	}
	sort.Slice(keys, func(i, j int) bool { return keyLess(any(keys[i]), any(keys[j])) })
	if MapOrder != nil && len(keys) > 1 {
		perm := MapOrder(len(keys))
		out := make([]K, len(keys))
		for i, p := range perm {
			out[i] = keys[p]
		}
		return out
	}
	return keys
}

// Entry is one snapshot entry of a map.
type Entry[K comparable, V any] struct {
	K K
	V V
}

// MapEntries snapshots m (used where the ranged expression must be evaluated once).
func MapEntries[M ~map[K]V, K comparable, V any](m M) []Entry[K, V] {
	keys := MapKeys(m)
	out := make([]Entry[K, V], len(keys))
	for i, k := range keys {
		out[i] = Entry[K, V]{k, m[k]}
	}
	return out
}
