// Package bgpwire is an independent RFC 4271 decoder (header, OPEN with capabilities, UPDATE
// with path attributes, NLRI and withdrawn routes, KEEPALIVE, NOTIFICATION) and an encoder for
// the messages a scripted peer sends.  It shares no code with MetalLB's native BGP package.
package bgpwire

import (
	"encoding/binary"
	"fmt"
	"net/netip"
	"sort"
	"strings"
)

const (
	TypeOpen         = 1
	TypeUpdate       = 2
	TypeNotification = 3
	TypeKeepalive    = 4
)

// Msg is one decoded message.
type Msg struct {
	Type   int
	Len    int
	Open   *Open
	Update *Update
	Notif  []byte
}

type Open struct {
	Version  int
	AS16     uint16
	HoldTime uint16
	RouterID netip.Addr
	AS4      uint32
	HasAS4   bool
	MP       [][2]uint16 // AFI, SAFI
	Caps     []int
}

// ASN is the peer's AS number (the 4-byte capability takes precedence).
func (o *Open) ASN() uint32 {
	if o.HasAS4 {
		return o.AS4
	}
	return uint32(o.AS16)
}

type Attr struct {
	Flags byte
	Type  byte
	Val   []byte
}

type Update struct {
	Withdrawn   []netip.Prefix
	NLRI        []netip.Prefix
	Attrs       []Attr
	Origin      int // -1 absent
	ASPath      []uint32
	ASPathSegs  int
	NextHop     netip.Addr
	HasNextHop  bool
	LocalPref   uint32
	HasLocalPre bool
	Communities []uint32
}

// CommunityStrings renders the communities "hi:lo", sorted.
func (u *Update) CommunityStrings() string {
	var out []string
	for _, c := range u.Communities {
		out = append(out, fmt.Sprintf("%d:%d", c>>16, c&0xffff))
	}
	sort.Strings(out)
	return strings.Join(out, ",")
}

// Decoder consumes a byte stream.
type Decoder struct {
	buf []byte
	// FourByteAS tells how AS_PATH segments are encoded on this connection (both sides announced
	// the 4-byte capability).
	FourByteAS bool
	Consumed   int
}

func (d *Decoder) Feed(p []byte) { d.buf = append(d.buf, p...) }

// Buffered is the number of bytes fed and not yet consumed by a complete message.
func (d *Decoder) Buffered() int { return len(d.buf) }

// Next decodes the next complete message; (nil, nil) when more bytes are needed.
func (d *Decoder) Next() (*Msg, error) {
	if len(d.buf) < 19 {
		return nil, nil
	}
	for i := 0; i < 16; i++ {
		if d.buf[i] != 0xff {
			return nil, fmt.Errorf("marker byte %d is %#x", i, d.buf[i])
		}
	}
	l := int(binary.BigEndian.Uint16(d.buf[16:18]))
	t := int(d.buf[18])
	if l < 19 || l > 4096 {
		return nil, fmt.Errorf("message length %d out of range", l)
	}
	if len(d.buf) < l {
		return nil, nil
	}
	body := d.buf[19:l]
	d.buf = d.buf[l:]
	d.Consumed += l
	m := &Msg{Type: t, Len: l}
	var err error
	switch t {
	case TypeOpen:
		m.Open, err = decodeOpen(body)
	case TypeUpdate:
		m.Update, err = d.decodeUpdate(body)
	case TypeNotification:
		if len(body) < 2 {
			err = fmt.Errorf("NOTIFICATION of %d bytes", len(body))
		}
		m.Notif = body
	case TypeKeepalive:
		if l != 19 {
			err = fmt.Errorf("KEEPALIVE of length %d", l)
		}
	default:
		err = fmt.Errorf("unknown message type %d", t)
	}
	if err != nil {
		return nil, err
	}
	return m, nil
}

func decodeOpen(b []byte) (*Open, error) {
	if len(b) < 10 {
		return nil, fmt.Errorf("OPEN body of %d bytes", len(b))
	}
	o := &Open{Version: int(b[0]), AS16: binary.BigEndian.Uint16(b[1:3]), HoldTime: binary.BigEndian.Uint16(b[3:5])}
	o.RouterID, _ = netip.AddrFromSlice(b[5:9])
	optLen := int(b[9])
	opts := b[10:]
	if optLen != len(opts) {
		return nil, fmt.Errorf("OPEN optional parameter length %d but %d bytes follow", optLen, len(opts))
	}
	for len(opts) > 0 {
		if len(opts) < 2 {
			return nil, fmt.Errorf("truncated optional parameter header")
		}
		pt, pl := opts[0], int(opts[1])
		if len(opts) < 2+pl {
			return nil, fmt.Errorf("optional parameter %d claims %d bytes, %d left", pt, pl, len(opts)-2)
		}
		pv := opts[2 : 2+pl]
		opts = opts[2+pl:]
		if pt != 2 {
			continue
		}
		for len(pv) > 0 {
			if len(pv) < 2 {
				return nil, fmt.Errorf("truncated capability header")
			}
			code, cl := int(pv[0]), int(pv[1])
			if len(pv) < 2+cl {
				return nil, fmt.Errorf("capability %d claims %d bytes, %d left", code, cl, len(pv)-2)
			}
			cv := pv[2 : 2+cl]
			pv = pv[2+cl:]
			o.Caps = append(o.Caps, code)
			switch code {
			case 65:
				if cl != 4 {
					return nil, fmt.Errorf("4-byte AS capability of length %d", cl)
				}
				o.AS4, o.HasAS4 = binary.BigEndian.Uint32(cv), true
			case 1:
				if cl != 4 {
					return nil, fmt.Errorf("multiprotocol capability of length %d", cl)
				}
				o.MP = append(o.MP, [2]uint16{binary.BigEndian.Uint16(cv[0:2]), uint16(cv[3])})
			}
		}
	}
	return o, nil
}

func decodePrefixes(b []byte) ([]netip.Prefix, error) {
	var out []netip.Prefix
	for len(b) > 0 {
		bits := int(b[0])
		if bits > 32 {
			return nil, fmt.Errorf("prefix length %d", bits)
		}
		n := (bits + 7) / 8
		if len(b) < 1+n {
			return nil, fmt.Errorf("prefix of %d bits needs %d bytes, %d left", bits, n, len(b)-1)
		}
		var a [4]byte
		copy(a[:], b[1:1+n])
		p := netip.PrefixFrom(netip.AddrFrom4(a), bits)
		if p.Masked() != p {
			return nil, fmt.Errorf("prefix %s has host bits set", p)
		}
		out = append(out, p)
		b = b[1+n:]
	}
	return out, nil
}

func (d *Decoder) decodeUpdate(b []byte) (*Update, error) {
	u := &Update{Origin: -1}
	if len(b) < 4 {
		return nil, fmt.Errorf("UPDATE body of %d bytes", len(b))
	}
	wl := int(binary.BigEndian.Uint16(b[0:2]))
	if len(b) < 2+wl+2 {
		return nil, fmt.Errorf("withdrawn routes length %d exceeds the message", wl)
	}
	var err error
	if u.Withdrawn, err = decodePrefixes(b[2 : 2+wl]); err != nil {
		return nil, fmt.Errorf("withdrawn routes: %v", err)
	}
	rest := b[2+wl:]
	al := int(binary.BigEndian.Uint16(rest[0:2]))
	if len(rest) < 2+al {
		return nil, fmt.Errorf("total path attribute length %d exceeds the message", al)
	}
	attrs := rest[2 : 2+al]
	if u.NLRI, err = decodePrefixes(rest[2+al:]); err != nil {
		return nil, fmt.Errorf("NLRI: %v", err)
	}
	seen := map[byte]bool{}
	for len(attrs) > 0 {
		if len(attrs) < 3 {
			return nil, fmt.Errorf("truncated attribute header")
		}
		fl, ty := attrs[0], attrs[1]
		var l, hdr int
		if fl&0x10 != 0 {
			if len(attrs) < 4 {
				return nil, fmt.Errorf("truncated extended-length attribute header")
			}
			l, hdr = int(binary.BigEndian.Uint16(attrs[2:4])), 4
		} else {
			l, hdr = int(attrs[2]), 3
		}
		if len(attrs) < hdr+l {
			return nil, fmt.Errorf("attribute %d claims %d bytes, %d left", ty, l, len(attrs)-hdr)
		}
		v := attrs[hdr : hdr+l]
		attrs = attrs[hdr+l:]
		if seen[ty] {
			return nil, fmt.Errorf("attribute %d appears twice", ty)
		}
		seen[ty] = true
		u.Attrs = append(u.Attrs, Attr{fl, ty, v})
		wellKnown := func() error {
			if fl&0xc0 != 0x40 {
				return fmt.Errorf("well-known attribute %d has flags %#x", ty, fl)
			}
			return nil
		}
		switch ty {
		case 1:
			if err := wellKnown(); err != nil {
				return nil, err
			}
			if l != 1 || v[0] > 2 {
				return nil, fmt.Errorf("bad ORIGIN")
			}
			u.Origin = int(v[0])
		case 2:
			if err := wellKnown(); err != nil {
				return nil, err
			}
			asz := 2
			if d.FourByteAS {
				asz = 4
			}
			for len(v) > 0 {
				if len(v) < 2 {
					return nil, fmt.Errorf("truncated AS_PATH segment")
				}
				st, cnt := v[0], int(v[1])
				if st != 1 && st != 2 {
					return nil, fmt.Errorf("AS_PATH segment type %d", st)
				}
				if len(v) < 2+cnt*asz {
					return nil, fmt.Errorf("AS_PATH segment of %d ASes (%d bytes each) exceeds the attribute", cnt, asz)
				}
				for i := 0; i < cnt; i++ {
					if asz == 4 {
						u.ASPath = append(u.ASPath, binary.BigEndian.Uint32(v[2+4*i:]))
					} else {
						u.ASPath = append(u.ASPath, uint32(binary.BigEndian.Uint16(v[2+2*i:])))
					}
				}
				u.ASPathSegs++
				v = v[2+cnt*asz:]
			}
		case 3:
			if err := wellKnown(); err != nil {
				return nil, err
			}
			if l != 4 {
				return nil, fmt.Errorf("NEXT_HOP of %d bytes", l)
			}
			u.NextHop, _ = netip.AddrFromSlice(v)
			u.HasNextHop = true
		case 5:
			if err := wellKnown(); err != nil {
				return nil, err
			}
			if l != 4 {
				return nil, fmt.Errorf("LOCAL_PREF of %d bytes", l)
			}
			u.LocalPref, u.HasLocalPre = binary.BigEndian.Uint32(v), true
		case 8:
			if fl&0xc0 != 0xc0 {
				return nil, fmt.Errorf("COMMUNITIES has flags %#x", fl)
			}
			if l%4 != 0 {
				return nil, fmt.Errorf("COMMUNITIES of %d bytes", l)
			}
			for i := 0; i < l; i += 4 {
				u.Communities = append(u.Communities, binary.BigEndian.Uint32(v[i:]))
			}
		}
	}
	if len(u.NLRI) > 0 && (u.Origin < 0 || !seen[2] || !u.HasNextHop) {
		return nil, fmt.Errorf("UPDATE with NLRI lacks a mandatory attribute (origin=%d aspath=%v nexthop=%v)", u.Origin, seen[2], u.HasNextHop)
	}
	return u, nil
}

// ---- encoder for the scripted peer ----

func header(t byte, bodyLen int) []byte {
	b := make([]byte, 19, 19+bodyLen)
	for i := 0; i < 16; i++ {
		b[i] = 0xff
	}
	binary.BigEndian.PutUint16(b[16:18], uint16(19+bodyLen))
	b[18] = t
	return b
}

// EncodeOpen builds an OPEN.  caps is the raw capability list (already encoded) or nil.
func EncodeOpen(as16 uint16, hold uint16, routerID [4]byte, caps []byte) []byte {
	body := []byte{4, byte(as16 >> 8), byte(as16), byte(hold >> 8), byte(hold)}
	body = append(body, routerID[:]...)
	if len(caps) > 0 {
		body = append(body, byte(len(caps)+2), 2, byte(len(caps)))
		body = append(body, caps...)
	} else {
		body = append(body, 0)
	}
	return append(header(TypeOpen, len(body)), body...)
}

func CapAS4(asn uint32) []byte {
	return []byte{65, 4, byte(asn >> 24), byte(asn >> 16), byte(asn >> 8), byte(asn)}
}
func CapMP(afi uint16, safi byte) []byte { return []byte{1, 4, byte(afi >> 8), byte(afi), 0, safi} }
func CapOther(code, n int) []byte {
	b := []byte{byte(code), byte(n)}
	for i := 0; i < n; i++ {
		b = append(b, byte(i))
	}
	return b
}

func EncodeKeepalive() []byte { return header(TypeKeepalive, 0) }

func EncodeNotification(code, sub byte) []byte {
	return append(header(TypeNotification, 2), code, sub)
}
