// Package specalloc is the reference model of address allocation, written from the property
// statements (C01, C02, C03, C07, C11).  It never calls MetalLB code: pools are parsed from the
// user's address strings with net/netip, selectors are evaluated with the Kubernetes label
// library, sharing is decided from the Service objects.
package specalloc

import (
	"fmt"
	"math"
	"math/big"
	"net/netip"
	"sort"
	"strings"

	metallbv1beta1 "go.universe.tf/metallb/api/v1beta1"
	v1 "k8s.io/api/core/v1"
	metav1 "k8s.io/apimachinery/pkg/apis/meta/v1"
	"k8s.io/apimachinery/pkg/labels"
)

const (
	annSharing        = "metallb.io/allow-shared-ip"
	annSharingOld     = "metallb.universe.tf/allow-shared-ip"
	annPool           = "metallb.io/address-pool"
	annPoolOld        = "metallb.universe.tf/address-pool"
	annLBIPs          = "metallb.io/loadBalancerIPs"
	annLBIPsOld       = "metallb.universe.tf/loadBalancerIPs"
	AnnAllocatedFrom  = "metallb.io/ip-allocated-from-pool"
	enumerationBudget = 1024
)

func ann(svc *v1.Service, stable, old string) string {
	if v, ok := svc.Annotations[stable]; ok {
		return v
	}
	return svc.Annotations[old]
}

// Range is an inclusive address range.
type Range struct{ Lo, Hi netip.Addr }

func (r Range) Contains(a netip.Addr) bool {
	return a.Is4() == r.Lo.Is4() && r.Lo.Compare(a) <= 0 && a.Compare(r.Hi) <= 0
}

func addrInt(a netip.Addr) *big.Int { return new(big.Int).SetBytes(a.AsSlice()) }

// Size is the number of addresses of the range.
func (r Range) Size() *big.Int {
	d := new(big.Int).Sub(addrInt(r.Hi), addrInt(r.Lo))
	return d.Add(d, big.NewInt(1))
}

// Pool is the oracle's view of one IPAddressPool.
type Pool struct {
	Name         string
	Ranges       []Range
	AvoidBuggy   bool
	AutoAssign   bool
	Pinned       bool // has a serviceAllocation stanza
	Priority     int
	NsConstraint bool            // namespaces or namespace selectors were given
	Namespaces   map[string]bool // explicit + selected
	SvcSelectors []labels.Selector
}

// Config is a parsed pool set.
type Config struct {
	Pools map[string]*Pool
}

// ParseRange parses one user address string (CIDR or "a-b").
func ParseRange(s string) (Range, error) {
	if strings.Contains(s, "-") {
		fs := strings.SplitN(s, "-", 2)
		lo, err := netip.ParseAddr(strings.TrimSpace(fs[0]))
		if err != nil {
			return Range{}, err
		}
		hi, err := netip.ParseAddr(strings.TrimSpace(fs[1]))
		if err != nil {
			return Range{}, err
		}
		lo, hi = lo.Unmap(), hi.Unmap()
		if lo.Is4() != hi.Is4() || lo.Compare(hi) > 0 {
			return Range{}, fmt.Errorf("bad range %q", s)
		}
		return Range{lo, hi}, nil
	}
	p, err := netip.ParsePrefix(s)
	if err != nil {
		return Range{}, err
	}
	p = netip.PrefixFrom(p.Addr().Unmap(), p.Bits()).Masked()
	lo := p.Addr()
	b := lo.AsSlice()
	for i := p.Bits(); i < len(b)*8; i++ {
		b[i/8] |= 1 << (7 - uint(i%8))
	}
	hi, _ := netip.AddrFromSlice(b)
	return Range{lo, hi}, nil
}

// Parse builds the oracle configuration from raw API objects.
func Parse(pools []metallbv1beta1.IPAddressPool, namespaces []v1.Namespace) (*Config, error) {
	cfg := &Config{Pools: map[string]*Pool{}}
	for _, p := range pools {
		sp := &Pool{Name: p.Name, AvoidBuggy: p.Spec.AvoidBuggyIPs, AutoAssign: true, Namespaces: map[string]bool{}}
		if p.Spec.AutoAssign != nil {
			sp.AutoAssign = *p.Spec.AutoAssign
		}
		for _, a := range p.Spec.Addresses {
			r, err := ParseRange(a)
			if err != nil {
				return nil, err
			}
			sp.Ranges = append(sp.Ranges, r)
		}
		if at := p.Spec.AllocateTo; at != nil {
			sp.Pinned = true
			sp.Priority = at.Priority
			for _, n := range at.Namespaces {
				sp.Namespaces[n] = true
				sp.NsConstraint = true
			}
			for i := range at.NamespaceSelectors {
				sp.NsConstraint = true
				sel, err := metav1.LabelSelectorAsSelector(&at.NamespaceSelectors[i])
				if err != nil {
					return nil, err
				}
				for _, ns := range namespaces {
					if sel.Matches(labels.Set(ns.Labels)) {
						sp.Namespaces[ns.Name] = true
					}
				}
			}
			for i := range at.ServiceSelectors {
				sel, err := metav1.LabelSelectorAsSelector(&at.ServiceSelectors[i])
				if err != nil {
					return nil, err
				}
				sp.SvcSelectors = append(sp.SvcSelectors, sel)
			}
		}
		cfg.Pools[p.Name] = sp
	}
	return cfg, nil
}

// Names returns the pool names sorted.
func (c *Config) Names() []string {
	var out []string
	for n := range c.Pools {
		out = append(out, n)
	}
	sort.Strings(out)
	return out
}

func IsBuggy(a netip.Addr) bool {
	if !a.Is4() {
		return false
	}
	b := a.As4()
	return b[3] == 0 || b[3] == 255
}

// Contains: a is a usable member of the pool.
func (p *Pool) Contains(a netip.Addr) bool {
	if p.AvoidBuggy && IsBuggy(a) {
		return false
	}
	for _, r := range p.Ranges {
		if r.Contains(a) {
			return true
		}
	}
	return false
}

// RawContains ignores the buggy-address rule.
func (p *Pool) RawContains(a netip.Addr) bool {
	for _, r := range p.Ranges {
		if r.Contains(a) {
			return true
		}
	}
	return false
}

// PoolsOf returns the names of the pools that contain a (as usable address).
func (c *Config) PoolsOf(a netip.Addr) []string {
	var out []string
	for _, n := range c.Names() {
		if c.Pools[n].Contains(a) {
			out = append(out, n)
		}
	}
	return out
}

// Admits: the pool's namespace / service selectors admit svc.
func (p *Pool) Admits(svc *v1.Service) bool {
	if !p.Pinned {
		return true
	}
	if p.NsConstraint && !p.Namespaces[svc.Namespace] {
		return false
	}
	if len(p.SvcSelectors) > 0 {
		for _, s := range p.SvcSelectors {
			if s.Matches(labels.Set(svc.Labels)) {
				return true
			}
		}
		return false
	}
	return true
}

// AmbiguousAdmission: namespace selectors were given but select no namespace at all.  Whether
// such a pool admits nobody (reading of the statement) or everybody (what an empty namespace set
// means elsewhere) is decided by Admits as "nobody"; the flag lets callers report it precisely.
func (p *Pool) NsSelectsNothing() bool { return p.Pinned && p.NsConstraint && len(p.Namespaces) == 0 }

// Usable counts the usable addresses per family, saturating at MaxInt64.
func (p *Pool) Usable() (v4, v6 int64) {
	sat := func(acc int64, n *big.Int) int64 {
		if !n.IsInt64() || acc > math.MaxInt64-n.Int64() {
			return math.MaxInt64
		}
		return acc + n.Int64()
	}
	// ranges of one pool may not overlap (accepted configurations), so sizes add up
	for _, r := range p.Ranges {
		n := r.Size()
		if r.Lo.Is4() {
			if p.AvoidBuggy {
				lo, hi := addrInt(r.Lo).Int64(), addrInt(r.Hi).Int64()
				// count x in [lo,hi] with x%256 in {0,255}
				cnt := func(x int64) int64 { // number of buggy in [0,x]
					if x < 0 {
						return 0
					}
					return (x/256 + 1) + (x+1)/256
				}
				n = new(big.Int).Sub(n, big.NewInt(cnt(hi)-cnt(lo-1)))
			}
			v4 = sat(v4, n)
		} else {
			v6 = sat(v6, n)
		}
	}
	return
}

// ---- services ----

func SharingKey(svc *v1.Service) string  { return ann(svc, annSharing, annSharingOld) }
func DesiredPool(svc *v1.Service) string { return ann(svc, annPool, annPoolOld) }

// Family requirements of a service.
type Families struct {
	V4, V6  bool
	Policy  v1.IPFamilyPolicy
	Valid   bool
	Primary bool // true: v4 first
}

func FamiliesOf(svc *v1.Service) Families {
	ips := svc.Spec.ClusterIPs
	if len(ips) == 0 && svc.Spec.ClusterIP != "" {
		ips = []string{svc.Spec.ClusterIP}
	}
	f := Families{Policy: v1.IPFamilyPolicySingleStack}
	if svc.Spec.IPFamilyPolicy != nil {
		f.Policy = *svc.Spec.IPFamilyPolicy
	}
	if len(ips) == 0 || len(ips) > 2 {
		return f
	}
	for _, s := range ips {
		a, err := netip.ParseAddr(s)
		if err != nil {
			return f
		}
		if a.Unmap().Is4() {
			if f.V4 {
				return f
			}
			f.V4 = true
		} else {
			if f.V6 {
				return f
			}
			f.V6 = true
		}
	}
	if f.Policy == v1.IPFamilyPolicyRequireDualStack && !(f.V4 && f.V6) {
		return f
	}
	f.Valid = true
	return f
}

func (f Families) Dual() bool { return f.V4 && f.V6 }

// RequestedIPs parses the explicit address request; ok=false when malformed or contradictory.
func RequestedIPs(svc *v1.Service) (ips []netip.Addr, present bool, ok bool) {
	a := ann(svc, annLBIPs, annLBIPsOld)
	if a == "" && svc.Spec.LoadBalancerIP == "" {
		return nil, false, true
	}
	if a != "" && svc.Spec.LoadBalancerIP != "" {
		return nil, true, false
	}
	var strs []string
	if a != "" {
		strs = strings.Split(a, ",")
	} else {
		strs = []string{svc.Spec.LoadBalancerIP}
	}
	for _, s := range strs {
		ip, err := netip.ParseAddr(strings.TrimSpace(s))
		if err != nil {
			return nil, true, false
		}
		ips = append(ips, ip.Unmap())
	}
	// a request must name one address per cluster-IP family of the service
	f := FamiliesOf(svc)
	r4, r6 := 0, 0
	for _, a := range ips {
		if a.Is4() {
			r4++
		} else {
			r6++
		}
	}
	b := func(x bool) int {
		if x {
			return 1
		}
		return 0
	}
	if f.Valid && (r4 != b(f.V4) || r6 != b(f.V6)) {
		return ips, true, false
	}
	return ips, true, true
}

// PhantomHolder is a non-sharing pseudo service used to mark addresses as unavailable.
func PhantomHolder(ips []netip.Addr) Holding {
	return Holding{IPs: ips, Svc: &v1.Service{}}
}

// NeverShare is the share predicate under which only free addresses are usable.
func NeverShare(a, b *v1.Service) bool { return false }

type port struct {
	proto string
	port  int32
}

func ports(svc *v1.Service) map[port]bool {
	out := map[port]bool{}
	for _, p := range svc.Spec.Ports {
		out[port{string(p.Protocol), p.Port}] = true
	}
	return out
}

func disjointPorts(a, b *v1.Service) bool {
	pa := ports(a)
	for p := range ports(b) {
		if pa[p] {
			return false
		}
	}
	return true
}

func isLocal(svc *v1.Service) bool {
	return svc.Spec.ExternalTrafficPolicy == v1.ServiceExternalTrafficPolicyTypeLocal
}

func sameSelector(a, b *v1.Service) bool {
	return labels.Set(a.Spec.Selector).String() == labels.Set(b.Spec.Selector).String()
}

// MayShare is the permissive reading of the sharing rule (safety oracle, C01): anything outside
// it is a violation.
func MayShare(a, b *v1.Service) bool {
	k := SharingKey(a)
	if k == "" || k != SharingKey(b) || !disjointPorts(a, b) {
		return false
	}
	if !isLocal(a) && !isLocal(b) {
		return true
	}
	return sameSelector(a, b)
}

// MustShare is the strict reading (liveness oracle, C07): inside it sharing is certainly allowed.
// The gap between the two (one Cluster, one Local, identical selectors) is left unspecified.
func MustShare(a, b *v1.Service) bool {
	if !MayShare(a, b) {
		return false
	}
	if isLocal(a) != isLocal(b) {
		return false
	}
	return true
}

// Holding is what one service holds, with the Service object MetalLB last saw for it.
type Holding struct {
	IPs []netip.Addr
	Svc *v1.Service
}

// Holdings maps service key -> holding.
type Holdings map[string]Holding

func (h Holdings) Keys() []string {
	var out []string
	for k := range h {
		out = append(out, k)
	}
	sort.Strings(out)
	return out
}

// HoldersOf returns the keys of the services holding a.
func (h Holdings) HoldersOf(a netip.Addr) []string {
	var out []string
	for _, k := range h.Keys() {
		for _, ip := range h[k].IPs {
			if ip == a {
				out = append(out, k)
			}
		}
	}
	return out
}

// ExclusivityViolation returns a description of the first pair of services that hold a common
// address without being allowed to share it.
func (h Holdings) ExclusivityViolation() string {
	keys := h.Keys()
	for i, a := range keys {
		for _, b := range keys[i+1:] {
			for _, ipa := range h[a].IPs {
				for _, ipb := range h[b].IPs {
					if ipa == ipb && !MayShare(h[a].Svc, h[b].Svc) {
						return fmt.Sprintf("%s and %s both hold %s but may not share it (%s / %s)", a, b, ipa, Describe(h[a].Svc), Describe(h[b].Svc))
					}
				}
			}
		}
	}
	return ""
}

// Describe prints the allocation-relevant part of a service.
func Describe(s *v1.Service) string {
	if s == nil {
		return "<nil>"
	}
	var ps []string
	for _, p := range s.Spec.Ports {
		ps = append(ps, fmt.Sprintf("%s/%d", p.Protocol, p.Port))
	}
	pol := ""
	if s.Spec.IPFamilyPolicy != nil {
		pol = string(*s.Spec.IPFamilyPolicy)
	}
	var st []string
	for _, i := range s.Status.LoadBalancer.Ingress {
		st = append(st, i.IP)
	}
	return fmt.Sprintf("{%s/%s type=%s cips=%v pol=%s ports=%v key=%q etp=%s sel=%v labels=%v lbip=%q ann=%v status=%v}",
		s.Namespace, s.Name, s.Spec.Type, s.Spec.ClusterIPs, pol, ps, SharingKey(s), s.Spec.ExternalTrafficPolicy, s.Spec.Selector, s.Labels, s.Spec.LoadBalancerIP, s.Annotations, st)
}

// usableFor: a can be taken by svc given the other holders (share decides compatibility).
func usableFor(a netip.Addr, key string, svc *v1.Service, h Holdings, share func(a, b *v1.Service) bool) bool {
	for _, k := range h.HoldersOf(a) {
		if k == key {
			continue
		}
		if !share(svc, h[k].Svc) {
			return false
		}
	}
	return true
}

// familyAvailable: the pool has a usable address of the family that svc could take.
func (p *Pool) familyAvailable(v4 bool, key string, svc *v1.Service, h Holdings, share func(a, b *v1.Service) bool) bool {
	// Every address either is held by someone (then it appears in h) or is free.  A range with more
	// addresses than there are holdings always has a free one; otherwise enumerate.
	held := 0
	for _, x := range h {
		held += len(x.IPs)
	}
	for _, r := range p.Ranges {
		if r.Lo.Is4() != v4 {
			continue
		}
		n := 0
		for a := r.Lo; ; a = a.Next() {
			if !(p.AvoidBuggy && IsBuggy(a)) {
				if usableFor(a, key, svc, h, share) {
					return true
				}
			}
			n++
			if a == r.Hi || n > enumerationBudget+held {
				break
			}
		}
	}
	return false
}

// PoolAdmissible: the pool could serve svc's family requirement right now.
func (p *Pool) PoolAdmissible(key string, svc *v1.Service, h Holdings, share func(a, b *v1.Service) bool) bool {
	f := FamiliesOf(svc)
	if !f.Valid {
		return false
	}
	a4 := f.V4 && p.familyAvailable(true, key, svc, h, share)
	a6 := f.V6 && p.familyAvailable(false, key, svc, h, share)
	switch {
	case f.Dual() && f.Policy == v1.IPFamilyPolicyPreferDualStack:
		return a4 || a6
	case f.Dual():
		return a4 && a6
	case f.V4:
		return a4
	default:
		return a6
	}
}

// Tier of a pool for automatic allocation: 0.. for pinned pools (ascending priority, 0 last),
// a large value for unpinned pools.
const UnpinnedTier = 1 << 30

func (p *Pool) Tier() int {
	if !p.Pinned {
		return UnpinnedTier
	}
	if p.Priority == 0 {
		return UnpinnedTier - 1
	}
	return p.Priority
}

// AutoCandidates returns the pools automatic allocation may draw from for svc.
func (c *Config) AutoCandidates(svc *v1.Service) []*Pool {
	var out []*Pool
	for _, n := range c.Names() {
		p := c.Pools[n]
		if p.AutoAssign && p.Admits(svc) {
			out = append(out, p)
		}
	}
	return out
}

// Admissible answers C07: is there any admissible assignment for the pending service?  It
// returns a witness description or "".  share must be MustShare for liveness claims.
func (c *Config) Admissible(key string, svc *v1.Service, h Holdings, share func(a, b *v1.Service) bool) string {
	f := FamiliesOf(svc)
	if !f.Valid {
		return ""
	}
	req, present, ok := RequestedIPs(svc)
	if present && !ok {
		return ""
	}
	want := DesiredPool(svc)
	if present {
		// exactly the requested addresses
		if len(req) == 0 || len(req) > 2 {
			return ""
		}
		r4, r6 := 0, 0
		for _, a := range req {
			if a.Is4() {
				r4++
			} else {
				r6++
			}
		}
		if !((f.Dual() && r4 == 1 && r6 == 1) || (!f.Dual() && f.V4 && r4 == 1 && r6 == 0) || (!f.Dual() && f.V6 && r6 == 1 && r4 == 0)) {
			return ""
		}
		var owner *Pool
		for _, n := range c.Names() {
			p := c.Pools[n]
			all := true
			for _, a := range req {
				if !p.Contains(a) {
					all = false
				}
			}
			if all {
				owner = p
				break
			}
		}
		if owner == nil || !owner.Admits(svc) || (want != "" && owner.Name != want) {
			return ""
		}
		for _, a := range req {
			if !usableFor(a, key, svc, h, share) {
				return ""
			}
		}
		return fmt.Sprintf("requested %v in pool %s are available", req, owner.Name)
	}
	if want != "" {
		p := c.Pools[want]
		if p == nil || !p.Admits(svc) {
			return ""
		}
		if p.PoolAdmissible(key, svc, h, share) {
			return fmt.Sprintf("requested pool %s has an admissible address set", want)
		}
		return ""
	}
	for _, p := range c.AutoCandidates(svc) {
		if p.PoolAdmissible(key, svc, h, share) {
			return fmt.Sprintf("auto-assign pool %s has an admissible address set", p.Name)
		}
	}
	return ""
}

// CheckAssignment answers C02 for one assignment event: svc now holds ips (non-empty), the
// previous holdings of everybody were pre.  auto says whether the service left the choice to
// MetalLB.  Returns "" or a description of the violated clause.
func (c *Config) CheckAssignment(key string, svc *v1.Service, ips []netip.Addr, pre Holdings) string {
	f := FamiliesOf(svc)
	if !f.Valid {
		return fmt.Sprintf("service without valid cluster IPs was assigned %v", ips)
	}
	// exactly one pool for all addresses
	var owner *Pool
	for _, a := range ips {
		ps := c.PoolsOf(a)
		if len(ps) != 1 {
			return fmt.Sprintf("address %s lies in %d usable pools %v (must be exactly one)", a, len(ps), ps)
		}
		if owner != nil && owner.Name != ps[0] {
			return fmt.Sprintf("addresses %v come from two pools (%s, %s)", ips, owner.Name, ps[0])
		}
		owner = c.Pools[ps[0]]
	}
	if !owner.Admits(svc) {
		return fmt.Sprintf("pool %s does not admit the service (pinned=%v ns=%v nsConstraint=%v selectors=%v) svc=%s", owner.Name, owner.Pinned, owner.Namespaces, owner.NsConstraint, owner.SvcSelectors, Describe(svc))
	}
	// families
	n4, n6 := 0, 0
	for _, a := range ips {
		if a.Is4() {
			n4++
		} else {
			n6++
		}
	}
	switch {
	case n4 > 1 || n6 > 1:
		return fmt.Sprintf("two addresses of one family %v", ips)
	case f.Dual() && f.Policy == v1.IPFamilyPolicyPreferDualStack:
		// at least one
	case f.Dual():
		if n4 != 1 || n6 != 1 {
			return fmt.Sprintf("dual-stack service got %v", ips)
		}
	case f.V4:
		if n4 != 1 || n6 != 0 {
			return fmt.Sprintf("IPv4 service got %v", ips)
		}
	case f.V6:
		if n6 != 1 || n4 != 0 {
			return fmt.Sprintf("IPv6 service got %v", ips)
		}
	}
	req, present, ok := RequestedIPs(svc)
	want := DesiredPool(svc)
	if present {
		if !ok {
			return fmt.Sprintf("service with a malformed address request was assigned %v", ips)
		}
		if !sameSet(req, ips) {
			return fmt.Sprintf("requested %v but assigned %v", req, ips)
		}
	}
	if want != "" && want != owner.Name {
		return fmt.Sprintf("requested pool %s but assigned %v from %s", want, ips, owner.Name)
	}
	if !present && want == "" {
		if !owner.AutoAssign {
			return fmt.Sprintf("automatic allocation drew %v from pool %s which has auto-assignment disabled", ips, owner.Name)
		}
		// pinned before unpinned, ascending priority: an earlier-tier candidate that could have
		// served the service must not have been skipped
		prefer := f.Dual() && f.Policy == v1.IPFamilyPolicyPreferDualStack
		for _, q := range c.AutoCandidates(svc) {
			if q.Name == owner.Name {
				continue
			}
			earlier := q.Tier() < owner.Tier()
			if prefer {
				// only the pinned-before-unpinned clause is unambiguous for PreferDualStack
				earlier = q.Pinned && !owner.Pinned
			}
			if earlier && q.PoolAdmissible(key, svc, pre, MustShare) {
				return fmt.Sprintf("pool %s (tier %d) was used although candidate pool %s (tier %d) precedes it and had an admissible address set", owner.Name, owner.Tier(), q.Name, q.Tier())
			}
		}
	}
	return ""
}

func sameSet(a, b []netip.Addr) bool {
	if len(a) != len(b) {
		return false
	}
	m := map[netip.Addr]int{}
	for _, x := range a {
		m[x]++
	}
	for _, x := range b {
		m[x]--
	}
	for _, v := range m {
		if v != 0 {
			return false
		}
	}
	return true
}

func SameSet(a, b []netip.Addr) bool { return sameSet(a, b) }

// StillAdmissible answers "are the addresses the service holds still admissible under the current
// configuration and its own spec" (C03, C06): pool membership, admission, family, request, and
// compatibility with the other current holders.
func (c *Config) StillAdmissible(key string, svc *v1.Service, ips []netip.Addr, h Holdings) bool {
	if svc == nil || svc.Spec.Type != v1.ServiceTypeLoadBalancer || len(ips) == 0 {
		return false
	}
	if msg := c.CheckAssignmentStatic(key, svc, ips); msg != "" {
		return false
	}
	if _, present, ok := RequestedIPs(svc); present && !ok {
		return false // malformed request: no claim either way
	}
	for _, a := range ips {
		if !usableFor(a, key, svc, h, MustShare) {
			return false
		}
	}
	return true
}

// CheckAssignmentStatic is CheckAssignment without the clauses that depend on the pre-state.
func (c *Config) CheckAssignmentStatic(key string, svc *v1.Service, ips []netip.Addr) string {
	f := FamiliesOf(svc)
	if !f.Valid {
		return "invalid cluster IPs"
	}
	var owner *Pool
	for _, a := range ips {
		ps := c.PoolsOf(a)
		if len(ps) != 1 {
			return fmt.Sprintf("address %s in %d pools", a, len(ps))
		}
		if owner != nil && owner.Name != ps[0] {
			return "two pools"
		}
		owner = c.Pools[ps[0]]
	}
	if owner == nil || !owner.Admits(svc) {
		return "not admitted"
	}
	n4, n6 := 0, 0
	for _, a := range ips {
		if a.Is4() {
			n4++
		} else {
			n6++
		}
	}
	switch {
	case n4 > 1 || n6 > 1:
		return "family twice"
	case f.Dual() && f.Policy == v1.IPFamilyPolicyPreferDualStack:
	case f.Dual():
		if n4 != 1 || n6 != 1 {
			return "family"
		}
	case f.V4:
		if n4 != 1 || n6 != 0 {
			return "family"
		}
	case f.V6:
		if n6 != 1 || n4 != 0 {
			return "family"
		}
	}
	req, present, ok := RequestedIPs(svc)
	if present && ok && !sameSet(req, ips) {
		return "request differs"
	}
	// a malformed request names no addresses: what a service that already holds an address should
	// then keep is not specified, no claim is made (a fresh assignment is judged by CheckAssignment)
	if want := DesiredPool(svc); want != "" && want != owner.Name {
		return "pool request differs"
	}
	return ""
}

// OwnerOf returns the single pool owning all ips, or nil.
func (c *Config) OwnerOf(ips []netip.Addr) *Pool {
	var owner *Pool
	for _, a := range ips {
		ps := c.PoolsOf(a)
		if len(ps) != 1 || (owner != nil && owner.Name != ps[0]) {
			return nil
		}
		owner = c.Pools[ps[0]]
	}
	return owner
}

// Usage counts the distinct addresses in use per family inside pool p.
func (p *Pool) Usage(h Holdings) (v4, v6 int64) {
	seen := map[netip.Addr]bool{}
	for _, x := range h {
		for _, a := range x.IPs {
			if !seen[a] && p.Contains(a) {
				seen[a] = true
				if a.Is4() {
					v4++
				} else {
					v6++
				}
			}
		}
	}
	return
}

// StatusHoldings builds holdings from Service statuses.
func StatusHoldings(svcs []*v1.Service) Holdings {
	h := Holdings{}
	for _, s := range svcs {
		var ips []netip.Addr
		for _, in := range s.Status.LoadBalancer.Ingress {
			if a, err := netip.ParseAddr(in.IP); err == nil {
				ips = append(ips, a.Unmap())
			}
		}
		if len(ips) > 0 {
			h[s.Namespace+"/"+s.Name] = Holding{IPs: ips, Svc: s}
		}
	}
	return h
}
