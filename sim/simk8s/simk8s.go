// Package simk8s is the simulated Kubernetes machinery of the K engines: an API server
// (object store, resourceVersion, optimistic concurrency, status subresource, per-kind watch
// log), a lagging informer cache per process incarnation, a controller-runtime client over
// them, and controller-runtime-style work queues on a simulated clock.  Single goroutine.
package simk8s

import (
	"context"
	"fmt"
	"reflect"
	"sort"
	"strconv"
	"time"

	apierrors "k8s.io/apimachinery/pkg/api/errors"
	"k8s.io/apimachinery/pkg/api/meta"
	"k8s.io/apimachinery/pkg/runtime"
	"k8s.io/apimachinery/pkg/runtime/schema"
	"k8s.io/apimachinery/pkg/types"
	"sigs.k8s.io/controller-runtime/pkg/client"
)

type Kind string

type EventType int

const (
	Added EventType = iota
	Modified
	Deleted
)

func (t EventType) String() string { return [...]string{"ADDED", "MODIFIED", "DELETED"}[t] }

// Event is one entry of a per-kind watch log.
type Event struct {
	Kind Kind
	Type EventType
	Key  string
	Old  client.Object
	New  client.Object
}

func KindOf(obj runtime.Object) Kind {
	t := reflect.TypeOf(obj)
	for t.Kind() == reflect.Ptr {
		t = t.Elem()
	}
	return Kind(t.Name())
}

func KeyOf(obj client.Object) string { return obj.GetNamespace() + "/" + obj.GetName() }

func listItemKind(list client.ObjectList) Kind {
	t := reflect.TypeOf(list).Elem()
	f, ok := t.FieldByName("Items")
	if !ok {
		panic(fmt.Sprintf("simk8s: %s has no Items", t))
	}
	return Kind(f.Type.Elem().Name())
}

// Server is the simulated API server.
type Server struct {
	rv    int64
	Objs  map[Kind]map[string]client.Object
	Log   map[Kind][]Event
	Write int // number of mutations
}

func NewServer() *Server {
	return &Server{Objs: map[Kind]map[string]client.Object{}, Log: map[Kind][]Event{}}
}

func (s *Server) bump(obj client.Object) {
	s.rv++
	obj.SetResourceVersion(strconv.FormatInt(s.rv, 10))
}

func (s *Server) put(k Kind, obj client.Object) {
	if s.Objs[k] == nil {
		s.Objs[k] = map[string]client.Object{}
	}
	s.Objs[k][KeyOf(obj)] = obj
}

func gr(k Kind) schema.GroupResource { return schema.GroupResource{Resource: string(k)} }

func cp(o client.Object) client.Object { return o.DeepCopyObject().(client.Object) }

// Get returns a copy of the stored object or nil.
func (s *Server) Get(k Kind, key string) client.Object {
	if o := s.Objs[k][key]; o != nil {
		return cp(o)
	}
	return nil
}

// Keys returns the sorted keys of a kind.
func (s *Server) Keys(k Kind) []string {
	out := make([]string, 0, len(s.Objs[k]))
	for key := range s.Objs[k] {
		out = append(out, key)
	}
	sort.Strings(out)
	return out
}

func (s *Server) Create(obj client.Object) error {
	k := KindOf(obj)
	if s.Objs[k][KeyOf(obj)] != nil {
		return apierrors.NewAlreadyExists(gr(k), obj.GetName())
	}
	o := cp(obj)
	o.SetGeneration(1)
	if o.GetUID() == "" {
		o.SetUID(types.UID(fmt.Sprintf("uid-%d", s.rv+1)))
	}
	s.bump(o)
	s.put(k, o)
	s.Log[k] = append(s.Log[k], Event{Kind: k, Type: Added, Key: KeyOf(o), New: cp(o)})
	s.Write++
	obj.SetResourceVersion(o.GetResourceVersion())
	obj.SetGeneration(o.GetGeneration())
	obj.SetUID(o.GetUID())
	return nil
}

func field(o client.Object, name string) (reflect.Value, bool) {
	v := reflect.ValueOf(o).Elem().FieldByName(name)
	return v, v.IsValid()
}

// Update replaces metadata (labels, annotations) and spec, keeps status.  An unchanged
// object produces no event (as the real API server does for no-op updates).
func (s *Server) Update(obj client.Object) error {
	k := KindOf(obj)
	old := s.Objs[k][KeyOf(obj)]
	if old == nil {
		return apierrors.NewNotFound(gr(k), obj.GetName())
	}
	if rv := obj.GetResourceVersion(); rv != "" && rv != old.GetResourceVersion() {
		return apierrors.NewConflict(gr(k), obj.GetName(), fmt.Errorf("resourceVersion %s is stale (current %s)", rv, old.GetResourceVersion()))
	}
	o := cp(obj)
	if ost, ok := field(old, "Status"); ok {
		nst, _ := field(o, "Status")
		nst.Set(reflect.ValueOf(cp(old)).Elem().FieldByName("Status"))
		_ = ost
	}
	o.SetUID(old.GetUID())
	o.SetGeneration(old.GetGeneration())
	o.SetResourceVersion(old.GetResourceVersion())
	if reflect.DeepEqual(o, old) {
		return nil
	}
	if osp, ok := field(old, "Spec"); ok {
		nsp, _ := field(o, "Spec")
		if !reflect.DeepEqual(osp.Interface(), nsp.Interface()) {
			o.SetGeneration(old.GetGeneration() + 1)
		}
	}
	s.bump(o)
	s.put(k, o)
	s.Log[k] = append(s.Log[k], Event{Kind: k, Type: Modified, Key: KeyOf(o), Old: cp(old), New: cp(o)})
	s.Write++
	obj.SetResourceVersion(o.GetResourceVersion())
	return nil
}

// UpdateStatus replaces status and (as the real API server does for built-in kinds) labels and
// annotations; spec is kept.  Optimistic concurrency on resourceVersion.
func (s *Server) UpdateStatus(obj client.Object) error {
	k := KindOf(obj)
	old := s.Objs[k][KeyOf(obj)]
	if old == nil {
		return apierrors.NewNotFound(gr(k), obj.GetName())
	}
	if rv := obj.GetResourceVersion(); rv != "" && rv != old.GetResourceVersion() {
		return apierrors.NewConflict(gr(k), obj.GetName(), fmt.Errorf("resourceVersion %s is stale (current %s)", rv, old.GetResourceVersion()))
	}
	o := cp(old)
	nst, ok := field(o, "Status")
	if !ok {
		return fmt.Errorf("simk8s: %s has no status", k)
	}
	nst.Set(reflect.ValueOf(cp(obj)).Elem().FieldByName("Status"))
	if k == "Service" {
		o.SetAnnotations(cp(obj).GetAnnotations())
		o.SetLabels(cp(obj).GetLabels())
	}
	if reflect.DeepEqual(o, old) {
		return nil
	}
	s.bump(o)
	s.put(k, o)
	s.Log[k] = append(s.Log[k], Event{Kind: k, Type: Modified, Key: KeyOf(o), Old: cp(old), New: cp(o)})
	s.Write++
	obj.SetResourceVersion(o.GetResourceVersion())
	return nil
}

func (s *Server) Delete(k Kind, key string) error {
	old := s.Objs[k][key]
	if old == nil {
		return apierrors.NewNotFound(gr(k), key)
	}
	delete(s.Objs[k], key)
	s.rv++
	s.Log[k] = append(s.Log[k], Event{Kind: k, Type: Deleted, Key: key, Old: cp(old)})
	s.Write++
	return nil
}

// Cache is the informer cache of one process incarnation.
type Cache struct {
	S       *Server
	Objs    map[Kind]map[string]client.Object
	pos     map[Kind]int
	synced  map[Kind]bool
	Kinds   []Kind
	OnEvent func(Event) // called after the cache has been updated
	Applied int
}

func NewCache(s *Server, kinds []Kind) *Cache {
	return &Cache{S: s, Objs: map[Kind]map[string]client.Object{}, pos: map[Kind]int{}, synced: map[Kind]bool{}, Kinds: kinds}
}

// Unsynced lists the kinds whose initial list has not been taken.
func (c *Cache) Unsynced() []Kind {
	var out []Kind
	for _, k := range c.Kinds {
		if !c.synced[k] {
			out = append(out, k)
		}
	}
	return out
}

// Sync takes the initial list of kind k now and delivers Added events in the order perm.
func (c *Cache) Sync(k Kind, perm func(n int) []int) {
	c.synced[k] = true
	c.pos[k] = len(c.S.Log[k])
	c.Objs[k] = map[string]client.Object{}
	keys := c.S.Keys(k)
	for _, i := range perm(len(keys)) {
		o := c.S.Get(k, keys[i])
		c.Objs[k][keys[i]] = o
		if c.OnEvent != nil {
			c.OnEvent(Event{Kind: k, Type: Added, Key: keys[i], New: cp(o)})
		}
	}
}

// Lagging lists synced kinds with watch events not yet applied.
func (c *Cache) Lagging() []Kind {
	var out []Kind
	for _, k := range c.Kinds {
		if c.synced[k] && c.pos[k] < len(c.S.Log[k]) {
			out = append(out, k)
		}
	}
	return out
}

// ApplyNext applies the next watch event of kind k.
func (c *Cache) ApplyNext(k Kind) Event {
	ev := c.S.Log[k][c.pos[k]]
	c.pos[k]++
	c.Applied++
	switch ev.Type {
	case Added, Modified:
		c.Objs[k][ev.Key] = cp(ev.New)
	case Deleted:
		delete(c.Objs[k], ev.Key)
	}
	if c.OnEvent != nil {
		c.OnEvent(ev)
	}
	return ev
}

// Resync redelivers the cached object as an update with identical old and new (informer resync).
func (c *Cache) Resync(k Kind, key string) {
	o := c.Objs[k][key]
	if o == nil || c.OnEvent == nil {
		return
	}
	c.OnEvent(Event{Kind: k, Type: Modified, Key: key, Old: cp(o), New: cp(o)})
}

func (c *Cache) Keys(k Kind) []string {
	out := make([]string, 0, len(c.Objs[k]))
	for key := range c.Objs[k] {
		out = append(out, key)
	}
	sort.Strings(out)
	return out
}

// Client is a controller-runtime client reading from a Cache and writing to the Server.
type Client struct {
	client.Client // nil: any method not overridden panics, which flags a harness gap
	C             *Cache
	// Hook runs before every call (scheduler interleaving and fault injection).  A non-nil error is
	// returned to the caller instead of performing the call.
	Hook func(op string, k Kind) error
	// ListPerm chooses the order of List results.
	ListPerm func(n int) []int
	// Index maps kind -> field name -> extractor (controller-runtime field indexers).
	Index map[Kind]map[string]func(client.Object) []string
	// StatusHook runs inside Status().Update: before==true prior to applying, then after.
	StatusHook func(k Kind, obj client.Object, before bool) error
	Reads      int
}

func (c *Client) hook(op string, k Kind) error {
	if c.Hook != nil {
		return c.Hook(op, k)
	}
	return nil
}

func (c *Client) Get(ctx context.Context, key client.ObjectKey, obj client.Object, opts ...client.GetOption) error {
	k := KindOf(obj)
	if err := c.hook("get", k); err != nil {
		return err
	}
	c.Reads++
	o := c.C.Objs[k][key.Namespace+"/"+key.Name]
	if o == nil {
		return apierrors.NewNotFound(gr(k), key.Name)
	}
	reflect.ValueOf(obj).Elem().Set(reflect.ValueOf(cp(o)).Elem())
	return nil
}

func (c *Client) List(ctx context.Context, list client.ObjectList, opts ...client.ListOption) error {
	k := listItemKind(list)
	if err := c.hook("list", k); err != nil {
		return err
	}
	c.Reads++
	lo := client.ListOptions{}
	lo.ApplyOptions(opts)
	var items []runtime.Object
	for _, key := range c.C.Keys(k) {
		o := c.C.Objs[k][key]
		if lo.Namespace != "" && o.GetNamespace() != lo.Namespace {
			continue
		}
		if lo.LabelSelector != nil && !lo.LabelSelector.Empty() {
			if !lo.LabelSelector.Matches(labelSet(o.GetLabels())) {
				continue
			}
		}
		if lo.FieldSelector != nil && !lo.FieldSelector.Empty() {
			ok := true
			for _, req := range lo.FieldSelector.Requirements() {
				ix := c.Index[k][req.Field]
				if ix == nil {
					return fmt.Errorf("simk8s: no index %s on %s", req.Field, k)
				}
				found := false
				for _, v := range ix(o) {
					if v == req.Value {
						found = true
					}
				}
				if !found {
					ok = false
				}
			}
			if !ok {
				continue
			}
		}
		items = append(items, cp(o))
	}
	if c.ListPerm != nil && len(items) > 1 {
		p := c.ListPerm(len(items))
		out := make([]runtime.Object, len(items))
		for i, j := range p {
			out[i] = items[j]
		}
		items = out
	}
	return meta.SetList(list, items)
}

type labelSet map[string]string

func (l labelSet) Has(k string) bool   { _, ok := l[k]; return ok }
func (l labelSet) Get(k string) string { return l[k] }
func (l labelSet) Lookup(k string) (string, bool) {
	v, ok := l[k]
	return v, ok
}

func (c *Client) Create(ctx context.Context, obj client.Object, opts ...client.CreateOption) error {
	if err := c.hook("create", KindOf(obj)); err != nil {
		return err
	}
	return c.C.S.Create(obj)
}

func (c *Client) Update(ctx context.Context, obj client.Object, opts ...client.UpdateOption) error {
	if err := c.hook("update", KindOf(obj)); err != nil {
		return err
	}
	return c.C.S.Update(obj)
}

func (c *Client) Delete(ctx context.Context, obj client.Object, opts ...client.DeleteOption) error {
	if err := c.hook("delete", KindOf(obj)); err != nil {
		return err
	}
	return c.C.S.Delete(KindOf(obj), KeyOf(obj))
}

func (c *Client) Scheme() *runtime.Scheme { return nil }

type statusWriter struct{ c *Client }

func (c *Client) Status() client.SubResourceWriter { return statusWriter{c} }

func (w statusWriter) Create(ctx context.Context, obj client.Object, sub client.Object, opts ...client.SubResourceCreateOption) error {
	panic("simk8s: status create not simulated")
}

func (w statusWriter) Patch(ctx context.Context, obj client.Object, patch client.Patch, opts ...client.SubResourcePatchOption) error {
	panic("simk8s: status patch not simulated")
}

func (w statusWriter) Update(ctx context.Context, obj client.Object, opts ...client.SubResourceUpdateOption) error {
	k := KindOf(obj)
	if err := w.c.hook("updateStatus", k); err != nil {
		return err
	}
	if w.c.StatusHook != nil {
		if err := w.c.StatusHook(k, obj, true); err != nil {
			return err
		}
	}
	if err := w.c.C.S.UpdateStatus(obj); err != nil {
		return err
	}
	if w.c.StatusHook != nil {
		return w.c.StatusHook(k, obj, false)
	}
	return nil
}

// Queue is a controller-runtime style work queue (dedup, dirty-while-processing, rate-limited
// re-adds on a simulated clock).
type Queue struct {
	Name       string
	items      []string
	dirty      map[string]bool
	processing map[string]bool
	delayed    map[string]time.Duration // key -> ready time
	failures   map[string]int
	Adds       int
}

func NewQueue(name string) *Queue {
	return &Queue{Name: name, dirty: map[string]bool{}, processing: map[string]bool{}, delayed: map[string]time.Duration{}, failures: map[string]int{}}
}

func (q *Queue) Add(key string) {
	q.Adds++
	if q.dirty[key] {
		return
	}
	q.dirty[key] = true
	if q.processing[key] {
		return
	}
	q.items = append(q.items, key)
}

func (q *Queue) Len() int { return len(q.items) }

func (q *Queue) Get() string {
	key := q.items[0]
	q.items = q.items[1:]
	q.processing[key] = true
	delete(q.dirty, key)
	return key
}

func (q *Queue) Done(key string) {
	delete(q.processing, key)
	if q.dirty[key] {
		q.items = append(q.items, key)
	}
}

func (q *Queue) Forget(key string) { delete(q.failures, key) }

// AddRateLimited re-adds after the per-item exponential back-off of controller-runtime's default
// rate limiter (5ms * 2^failures, capped at 1000s).
func (q *Queue) AddRateLimited(key string, now time.Duration) {
	n := q.failures[key]
	q.failures[key] = n + 1
	d := 5 * time.Millisecond
	for i := 0; i < n && d < 1000*time.Second; i++ {
		d *= 2
	}
	if d > 1000*time.Second {
		d = 1000 * time.Second
	}
	q.AddAfter(key, now+d)
}

func (q *Queue) AddAfter(key string, at time.Duration) {
	if old, ok := q.delayed[key]; ok && old <= at {
		return
	}
	q.delayed[key] = at
}

// NextReady returns the earliest ready time of a delayed item.
func (q *Queue) NextReady() (time.Duration, bool) {
	first := true
	var min time.Duration
	for _, at := range q.delayed {
		if first || at < min {
			min, first = at, false
		}
	}
	return min, !first
}

// Tick moves delayed items that are ready at now into the queue (in key order).
func (q *Queue) Tick(now time.Duration) {
	var ready []string
	for k, at := range q.delayed {
		if at <= now {
			ready = append(ready, k)
		}
	}
	sort.Strings(ready)
	for _, k := range ready {
		delete(q.delayed, k)
		q.Add(k)
	}
}

// Idle: nothing queued, nothing delayed, nothing in flight.
func (q *Queue) Idle() bool {
	return len(q.items) == 0 && len(q.delayed) == 0 && len(q.processing) == 0
}

// Shuffle reorders the queued items (initial delivery order).
func (q *Queue) Shuffle(perm func(n int) []int) {
	p := perm(len(q.items))
	out := make([]string, len(q.items))
	for i, j := range p {
		out[i] = q.items[j]
	}
	q.items = out
}

func (q *Queue) Items() []string { return append([]string(nil), q.items...) }
