// Package simsync has the API of the standard sync package (the part MetalLB uses).  With a
// goroutine-engine simulation active, locks and condition variables are owned by the scheduler:
// acquiring is a park point, the scheduler grants the lock when it is free, and the race
// detector is told about exactly the happens-before edges the program's own locking creates
// (so a missing lock is a deterministic, replayable race report although the execution is
// serialised).  Without a simulation everything is the real sync primitive.
package simsync

import (
	"sync"
	"unsafe"

	"go.universe.tf/metallb/internal/verifsim/simrt"
)

type (
	Once      = sync.Once
	WaitGroup = sync.WaitGroup
	Pool      = sync.Pool
	Map       = sync.Map
	Locker    = sync.Locker
)

// LockOrder, when non-nil, is told about every granted lock (C20: serial replay order).
var LockOrder func(task, obj string)

type Mutex struct {
	real   sync.Mutex
	held   bool // sim-held
	name   string
	waiter int
}

//go:norace
func (m *Mutex) obj(s *simrt.Sched) string {
	if m.name == "" {
		m.name = s.ObjName("mutex")
	}
	return m.name
}

//go:norace
func (m *Mutex) Lock() {
	s := simrt.Active
	if s == nil {
		m.real.Lock()
		return
	}
	name := m.obj(s)
	s.Park(&simrt.Op{Kind: "lock", Obj: name, Enabled: func() bool { return !m.held }, OnRelease: func() {
		m.held = true
	}})
	raceAcquire(unsafe.Pointer(m))
	if LockOrder != nil {
		if t := s.Current(); t != nil {
			LockOrder(t.Name, name)
		}
	}
}

// VerifName is the scheduler's name of this mutex ("" before its first use under the simulator).
//
//go:norace
func (m *Mutex) VerifName() string { return m.name }

//go:norace
func (m *Mutex) TryLock() bool {
	s := simrt.Active
	if s == nil {
		return m.real.TryLock()
	}
	if m.held {
		return false
	}
	m.held = true
	raceAcquire(unsafe.Pointer(m))
	return true
}

//go:norace
func (m *Mutex) Unlock() {
	if m.held || m.name != "" {
		// a mutex that has been used under the simulator never touches the real one again (a killed
		// run unwinds through deferred Unlocks of locks it no longer holds)
		raceRelease(unsafe.Pointer(m))
		m.held = false
		return
	}
	m.real.Unlock()
}

type RWMutex struct {
	real    sync.RWMutex
	writer  bool
	readers int
	wwait   int     // writers parked
	wseq    []int64 // arrival numbers of the parked writers
	arrival int64
	name    string
}

// A reader that called RLock before a writer called Lock is not held back by that writer (in the
// runtime it already holds the read lock); readers arriving after a waiting writer queue behind it.
//
//go:norace
func (m *RWMutex) readerMayGo(arrived int64) bool {
	if m.writer {
		return false
	}
	for _, w := range m.wseq {
		if w < arrived {
			return false
		}
	}
	return true
}

//go:norace
func (m *RWMutex) dropWriter(arrived int64) {
	for i, w := range m.wseq {
		if w == arrived {
			for k := i; k+1 < len(m.wseq); k++ {
				m.wseq[k] = m.wseq[k+1]
			}
			m.wseq = m.wseq[:len(m.wseq)-1]
			return
		}
	}
}

//go:norace
func (m *RWMutex) obj(s *simrt.Sched) string {
	if m.name == "" {
		m.name = s.ObjName("rwmutex")
	}
	return m.name
}

//go:norace
func (m *RWMutex) Lock() {
	s := simrt.Active
	if s == nil {
		m.real.Lock()
		return
	}
	name := m.obj(s)
	m.wwait++
	m.arrival++
	me := m.arrival
	m.wseq = append(m.wseq, me)
	s.Park(&simrt.Op{Kind: "lock", Obj: name, Enabled: func() bool { return !m.writer && m.readers == 0 }, OnRelease: func() {
		m.writer = true
		m.wwait--
		m.dropWriter(me)
	}})
	raceAcquire(unsafe.Pointer(m))
	if LockOrder != nil {
		if t := s.Current(); t != nil {
			LockOrder(t.Name, name)
		}
	}
}

//go:norace
func (m *RWMutex) Unlock() {
	if m.writer || m.name != "" {
		raceRelease(unsafe.Pointer(m))
		m.writer = false
		return
	}
	m.real.Unlock()
}

//go:norace
func (m *RWMutex) RLock() {
	s := simrt.Active
	if s == nil {
		m.real.RLock()
		return
	}
	name := m.obj(s)
	m.arrival++
	me := m.arrival
	s.Park(&simrt.Op{Kind: "rlock", Obj: name, Enabled: func() bool { return m.readerMayGo(me) }, OnRelease: func() {
		m.readers++
	}})
	raceAcquire(unsafe.Pointer(m))
}

//go:norace
func (m *RWMutex) RUnlock() {
	if m.readers > 0 || m.name != "" {
		raceReleaseMerge(unsafe.Pointer(m))
		if m.readers > 0 {
			m.readers--
		}
		return
	}
	m.real.RUnlock()
}

//go:norace
func (m *RWMutex) RLocker() Locker { return (*rlocker)(m) }

type rlocker RWMutex

//go:norace
func (r *rlocker) Lock() { (*RWMutex)(r).RLock() }

//go:norace
func (r *rlocker) Unlock() { (*RWMutex)(r).RUnlock() }

// Cond is sync.Cond over a simsync Locker.
type Cond struct {
	L       Locker
	real    *sync.Cond
	waiters []*condWaiter
	name    string
}

type condWaiter struct{ signaled bool }

func NewCond(l Locker) *Cond { return &Cond{L: l, real: sync.NewCond(l)} }

//go:norace
func (c *Cond) Wait() {
	s := simrt.Active
	if s == nil {
		c.real.Wait()
		return
	}
	if c.name == "" {
		c.name = s.ObjName("cond")
	}
	w := &condWaiter{}
	c.waiters = append(c.waiters, w)
	c.L.Unlock()
	s.Park(&simrt.Op{Kind: "condwait", Obj: c.name, Enabled: func() bool { return w.signaled }})
	c.L.Lock()
}

//go:norace
func (c *Cond) Signal() {
	if len(c.waiters) > 0 {
		c.waiters[0].signaled = true
		c.waiters = c.waiters[1:]
	}
	if simrt.Active == nil {
		c.real.Signal()
	}
}

//go:norace
func (c *Cond) Broadcast() {
	for _, w := range c.waiters {
		w.signaled = true
	}
	c.waiters = nil
	if simrt.Active == nil {
		c.real.Broadcast()
	}
}
