//go:build race

package simsync

import (
	"runtime"
	"unsafe"
)

func raceAcquire(p unsafe.Pointer)      { runtime.RaceAcquire(p) }
func raceRelease(p unsafe.Pointer)      { runtime.RaceRelease(p) }
func raceReleaseMerge(p unsafe.Pointer) { runtime.RaceReleaseMerge(p) }
