//go:build !race

package simsync

import "unsafe"

func raceAcquire(p unsafe.Pointer)      {}
func raceRelease(p unsafe.Pointer)      {}
func raceReleaseMerge(p unsafe.Pointer) {}
