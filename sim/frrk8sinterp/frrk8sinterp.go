// Package frrk8sinterp computes the denotation (package bgpmodel) of an FRRConfiguration as
// frr-k8s defines it: per router the originated prefixes; per neighbor the allowed prefixes, the
// local preference and communities attached to prefixes, the session parameters; plus the
// structural clauses of C15 (sorted duplicate-free lists, node selector, password xor secret).
package frrk8sinterp

import (
	"fmt"
	"net/netip"
	"sort"
	"strings"

	frrv1beta1 "github.com/metallb/frr-k8s/api/v1beta1"
	"go.universe.tf/metallb/internal/verifsim/bgpmodel"
)

func sortedUnique(l []string) bool {
	for i := 1; i < len(l); i++ {
		if l[i-1] >= l[i] {
			return false
		}
	}
	return true
}

// Denote interprets the object for the given node.
func Denote(cfg *frrv1beta1.FRRConfiguration, node string) (*bgpmodel.Denotation, []string) {
	d := &bgpmodel.Denotation{Routers: map[string]*bgpmodel.Router{}}
	var problems []string
	sel := cfg.Spec.NodeSelector
	if len(sel.MatchExpressions) != 0 || len(sel.MatchLabels) != 1 || sel.MatchLabels["kubernetes.io/hostname"] != node {
		problems = append(problems, fmt.Sprintf("node selector %v does not target exactly node %s", sel, node))
	}
	for _, rt := range cfg.Spec.BGP.Routers {
		rk := fmt.Sprintf("%d/%s", rt.ASN, rt.VRF)
		if d.Routers[rk] != nil {
			problems = append(problems, "router "+rk+" appears twice")
			continue
		}
		r := &bgpmodel.Router{ASN: rt.ASN, VRF: rt.VRF, RouterID: rt.ID, Neighbors: map[string]*bgpmodel.Neighbor{}}
		if !sortedUnique(rt.Prefixes) {
			problems = append(problems, fmt.Sprintf("router %s: prefixes %v are not sorted and duplicate-free", rk, rt.Prefixes))
		}
		for _, p := range rt.Prefixes {
			if pp, err := netip.ParsePrefix(p); err == nil && pp.Addr().Is4() {
				r.Networks4 = append(r.Networks4, p)
			} else {
				r.Networks6 = append(r.Networks6, p)
			}
		}
		sort.Strings(r.Networks4)
		sort.Strings(r.Networks6)
		d.Routers[rk] = r
		for _, nb := range rt.Neighbors {
			peer := nb.Address
			if nb.Interface != "" {
				peer = nb.Interface
			}
			if r.Neighbors[peer] != nil {
				problems = append(problems, fmt.Sprintf("router %s: neighbor %s appears twice", rk, peer))
				continue
			}
			n := &bgpmodel.Neighbor{Peer: peer, Params: map[string]string{}, Offers: map[string]bgpmodel.Offer{}}
			n.RemoteAS = fmt.Sprint(nb.ASN)
			if nb.DynamicASN != "" {
				n.RemoteAS = string(nb.DynamicASN)
			}
			if nb.Port != nil && *nb.Port != 0 {
				n.Params["port"] = fmt.Sprint(*nb.Port)
			}
			if nb.HoldTime != nil && nb.KeepaliveTime != nil {
				n.Params["timers"] = fmt.Sprintf("%d %d", int64(nb.KeepaliveTime.Seconds()), int64(nb.HoldTime.Seconds()))
			}
			if nb.ConnectTime != nil {
				n.Params["timers connect"] = fmt.Sprint(int64(nb.ConnectTime.Seconds()))
			}
			if nb.Password != "" {
				n.Params["password"] = nb.Password
			}
			if nb.PasswordSecret.Name != "" {
				n.Params["password-secret"] = nb.PasswordSecret.Namespace + "/" + nb.PasswordSecret.Name
				if nb.Password != "" {
					problems = append(problems, fmt.Sprintf("neighbor %s carries both a password and a secret reference", peer))
				}
			}
			if nb.SourceAddress != "" {
				n.Params["update-source"] = nb.SourceAddress
			}
			if nb.EBGPMultiHop {
				n.Params["ebgp-multihop"] = ""
			}
			if nb.EnableGracefulRestart {
				n.Params["graceful-restart"] = ""
			}
			if nb.BFDProfile != "" {
				n.Params["bfd profile"] = nb.BFDProfile
			}
			peerV4 := false
			if a, err := netip.ParseAddr(nb.Address); err == nil {
				peerV4 = a.Is4()
			}
			switch {
			case !nb.DisableMP:
				n.ActiveV4, n.ActiveV6 = true, true
			case nb.Interface != "":
			case peerV4:
				n.ActiveV4 = true
			default:
				n.ActiveV6 = true
			}
			adv := nb.ToAdvertise
			if !sortedUnique(adv.Allowed.Prefixes) {
				problems = append(problems, fmt.Sprintf("neighbor %s: allowed prefixes %v are not sorted and duplicate-free", peer, adv.Allowed.Prefixes))
			}
			if adv.Allowed.Mode == frrv1beta1.AllowAll {
				problems = append(problems, fmt.Sprintf("neighbor %s: allowed mode 'all' offers every prefix", peer))
			}
			if len(nb.ToReceive.Allowed.Prefixes) != 0 || nb.ToReceive.Allowed.Mode == frrv1beta1.AllowAll {
				problems = append(problems, fmt.Sprintf("neighbor %s accepts inbound routes", peer))
			}
			allowed := map[string]bool{}
			for _, p := range adv.Allowed.Prefixes {
				pp, err := netip.ParsePrefix(p)
				if err != nil {
					problems = append(problems, "bad prefix "+p)
					continue
				}
				if (pp.Addr().Is4() && !n.ActiveV4) || (!pp.Addr().Is4() && !n.ActiveV6) {
					continue
				}
				allowed[p] = true
				n.Offers[p] = bgpmodel.Offer{}
			}
			seenLP := map[string]bool{}
			for _, lp := range adv.PrefixesWithLocalPref {
				if !sortedUnique(lp.Prefixes) {
					problems = append(problems, fmt.Sprintf("neighbor %s: local-pref %d prefixes %v not sorted/unique", peer, lp.LocalPref, lp.Prefixes))
				}
				for _, p := range lp.Prefixes {
					if seenLP[p] {
						problems = append(problems, fmt.Sprintf("neighbor %s: prefix %s has two local preferences", peer, p))
					}
					seenLP[p] = true
					if o, ok := n.Offers[p]; ok {
						o.LocalPref = lp.LocalPref
						n.Offers[p] = o
					} else if allowedFamily(n, p) {
						problems = append(problems, fmt.Sprintf("neighbor %s: local preference for %s which is not allowed", peer, p))
					}
				}
			}
			seenC := map[string]bool{}
			for _, cp := range adv.PrefixesWithCommunity {
				if seenC[cp.Community] {
					problems = append(problems, fmt.Sprintf("neighbor %s: community %s listed twice", peer, cp.Community))
				}
				seenC[cp.Community] = true
				if !sortedUnique(cp.Prefixes) {
					problems = append(problems, fmt.Sprintf("neighbor %s: community %s prefixes %v not sorted/unique", peer, cp.Community, cp.Prefixes))
				}
				for _, p := range cp.Prefixes {
					o, ok := n.Offers[p]
					if !ok {
						if allowedFamily(n, p) {
							problems = append(problems, fmt.Sprintf("neighbor %s: community %s for %s which is not allowed", peer, cp.Community, p))
						}
						continue
					}
					if strings.HasPrefix(cp.Community, "large:") {
						o.Large = append(o.Large, strings.TrimPrefix(cp.Community, "large:"))
						sort.Strings(o.Large)
					} else {
						o.Comms = append(o.Comms, cp.Community)
						sort.Strings(o.Comms)
					}
					n.Offers[p] = o
				}
			}
			_ = allowed
			r.Neighbors[peer] = n
		}
	}
	sort.Strings(problems)
	return d, problems
}

func allowedFamily(n *bgpmodel.Neighbor, p string) bool {
	pp, err := netip.ParsePrefix(p)
	if err != nil {
		return true
	}
	if pp.Addr().Is4() {
		return n.ActiveV4
	}
	return n.ActiveV6
}
